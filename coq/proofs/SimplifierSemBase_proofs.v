(* C01, semantic clause, part 1 of 3: the fragment predicate [okt], type soundness of the
   fragment and one soundness lemma per rule of models/Simplifier.v (Boolean, arithmetic,
   bit-vector rules).  Part 2: SimplifierSemArr_proofs.v (arrays); part 3 (the dispatcher and
   the theorems): SimplifierSem_proofs.v. *)
From Coq Require Import List ZArith Bool String Reals Lia Lra Permutation.
From Coq Require Import ClassicalDescription FunctionalExtensionality.
From PySMT.core Require Import Syntax SyntaxLemmas PyPrims PyPrimsLemmas Types Sem.
From PySMT.models Require Import TypeChecker Oracles Ctors Simplifier.
From PySMT.proofs Require Import Sets_proofs TypeChecker_proofs Coincidence Simplifier_proofs.
Import ListNotations.
Open Scope bool_scope.

(* ================================================================== sorts with values *)
(* first-order sorts that have a value: positive widths, no function sort inside *)
Fixpoint inhb (t : ty) : bool :=
  match t with
  | TBV w => (0 <? w)%Z
  | TArr i e => inhb i && inhb e
  | TFun _ _ => false
  | _ => true
  end.
Lemma inhb_fo_ok t : inhb t = true <-> fo_ok t.
Proof.
  induction t; cbn; try (split; [intros _; exact Logic.I | reflexivity]).
  - apply Z.ltb_lt.
  - rewrite andb_true_iff, IHt1, IHt2. reflexivity.
  - split; [discriminate | contradiction].
Qed.
Lemma inhb_not_fun t : inhb t = true -> match t with TFun _ _ => False | _ => True end.
Proof. destruct t; cbn; auto; discriminate. Qed.
Lemma inhb_inhabited t : inhb t = true -> exists v, has_ty v t.
Proof.
  induction t; cbn; intros H.
  - exists (VBool false); exact Logic.I.
  - exists (VInt 0); exact Logic.I.
  - exists (VReal 0); exact Logic.I.
  - exists (VStr []); exact Logic.I.
  - apply Z.ltb_lt in H. exists (VBV w 0). cbn. split; auto. split; [lia|]. apply Z.pow_pos_nonneg; lia.
  - apply andb_true_iff in H. destruct H as [_ H]. destruct (IHt2 H) as [v Hv].
    exists (VArr (fun k => if key_sortb k t1 then v else junk)). cbn. intros k. destruct (key_sortb k t1); auto.
  - discriminate.
  - exists (VU name 0). reflexivity.
Qed.
(* What the theorems need of an interpretation: symbols and function results of an inhabited
   first-order sort denote values of that sort.  Equivalent to Sem.wf_interp (boolean form). *)
Definition wfi (I : interp) : Prop :=
  (forall n t, inhb t = true -> has_ty (isym I n t) t) /\
  (forall n ps r args, inhb r = true -> has_ty (ifun I n (TFun ps r) args) r).
Lemma wf_interp_wfi I : wf_interp I <-> wfi I.
Proof.
  split; intros [H1 H2]; split.
  - intros n t Ht. apply H1. now apply inhb_fo_ok.
  - intros n ps r args Hr. apply H2. now apply inhb_fo_ok.
  - intros n t Ht. apply H1. now apply inhb_fo_ok.
  - intros n ps r args Hr. apply H2. now apply inhb_fo_ok.
Qed.
Lemma wf_isym I n t : wfi I -> inhb t = true -> has_ty (isym I n t) t.
Proof. intros [H _] Ht. auto. Qed.

(* ================================================================== the fragment *)
(* array values.  The canonical form the constructor Array() and the model guarantee: the
   index sort is not an array sort, the indices are constants of Bool / Int / Real / BV / String
   sort (Real constants in lowest terms with a positive denominator, as everywhere in [okt]),
   strictly increasing in the model's order of index constants (Ctors.const_key; the
   implementation keeps a dict, the model and the harness keep this order), and no assigned
   value is syntactically the default (Array() drops such pairs).  [arr_keys_ok] is the part
   that survives the simplification of the children. *)
Definition key_const (t : term) : bool :=
  match t with
  | T (OBoolC _) [] | T (OIntC _) [] | T (OBVC _ _) [] | T (OStrC _) [] => true
  | T (ORealC n d) [] => (0 <? d)%Z && (Z.gcd n d =? 1)%Z      (* a Fraction: lowest terms *)
  | _ => false
  end.
Definition klt (a b : term) : bool := lex_ltb (const_key a) (const_key b).
Fixpoint keys_sorted (l : list (term * term)) : bool :=
  match l with
  | [] => true
  | kv :: r => forallb (fun kv' => klt (fst kv) (fst kv')) r && keys_sorted r
  end.
Definition idx_ok (it : ty) : bool := match it with TArr _ _ => false | _ => inhb it end.
Definition elt_ok (t : option ty) : bool := match t with None => false | Some _ => true end.
Definition arr_keys_ok (it : ty) (d : term) (rest : list term) : bool :=
  idx_ok it && elt_ok (tc d) && Nat.even (List.length rest) &&
  forallb (fun kv => key_const (fst kv)) (pairs_of rest) && keys_sorted (pairs_of rest).
Definition arr_node_ok (it : ty) (d : term) (rest : list term) : bool :=
  arr_keys_ok it d rest && forallb (fun kv => negb (term_eqb (snd kv) d)) (pairs_of rest).

Definition str_arity (k : strop) (n : nat) : bool :=
  match k with
  | SLength | SToInt | SFromInt => Nat.eqb n 1
  | SContains | SPrefixOf | SSuffixOf | SCharAt => Nat.eqb n 2
  | SIndexOf | SReplace | SSubstr => Nat.eqb n 3
  | SConcat => Nat.leb 2 n
  end.

(* node-local conditions: arities the constructors guarantee, constants in range, sorts of
   symbols / bound variables / function results inhabited.  Stage 1 operators. *)
Definition ok_node (o : op) (args : list term) : bool :=
  match o with
  | OAnd | OOr => true
  | ONot => Nat.eqb (List.length args) 1
  | OImplies | OIff | OEquals => Nat.eqb (List.length args) 2
  | OIte => Nat.eqb (List.length args) 3
  | OForall vs | OExists vs => Nat.eqb (List.length args) 1 && forallb (fun v => inhb (snd v)) vs
  | OSymbol _ t => inhb t
  | OFunction _ (TFun _ r) => inhb r && negb (Nat.eqb (List.length args) 0)
  | OFunction _ _ => false
  | OBoolC _ | OIntC _ | OStrC _ => true
  | ORealC n d => (0 <? d)%Z && (Z.gcd n d =? 1)%Z      (* Fraction: positive denominator, lowest terms *)
  | OBVC v w => (0 <? w)%Z && (0 <=? v)%Z && (v <? 2 ^ w)%Z
  (* stage 2: Int / Real arithmetic *)
  | OPlus | OTimes => negb (Nat.eqb (List.length args) 0)
  | OMinus | OLe | OLt | ODiv => Nat.eqb (List.length args) 2
  | OToReal => Nat.eqb (List.length args) 1
  (* Pow: the exponent is an integer constant (of sort Int, or an integral Real constant) *)
  (* stage 3: bit-vector operators *)
  | OBV k w =>
      (0 <? w)%Z &&
      match k with
      | BNot | BNeg => Nat.eqb (List.length args) 1
      | BAnd | BOr | BXor | BAdd | BSub | BMul | BUdiv | BUrem | BLshl | BLshr | BConcat
      | BSdiv | BSrem | BAshr => Nat.eqb (List.length args) 2
      | BComp => Nat.eqb (List.length args) 2 && (w =? 1)%Z
      end
  | OBVRel _ => Nat.eqb (List.length args) 2
  | OBVExtract _ s e => Nat.eqb (List.length args) 1 && (0 <=? s)%Z && (s <=? e)%Z
  | OBVRol w _ | OBVRor w _ => Nat.eqb (List.length args) 1 && (0 <? w)%Z
  | OBVZext w k | OBVSext w k => match args with [a] => (w =? bv_width a + k)%Z | _ => false end
  | OBVToNat => Nat.eqb (List.length args) 1
  (* stage 5: strings *)
  | OStr k => str_arity k (List.length args)
  (* stage 4: arrays *)
  | OSelect => Nat.eqb (List.length args) 2
  | OStore => Nat.eqb (List.length args) 3
  | OArrayValue it => match args with d :: rest => arr_node_ok it d rest | [] => false end
  | OPow => match args with
            | [_; T (OIntC y) []] => true
            | [_; T (ORealC n d) []] => (d =? 1)%Z
            | _ => false
            end
  end.
Fixpoint okt (t : term) : bool :=
  match t with
  | T o args => ok_node o args && (fix all (l : list term) : bool :=
                                     match l with [] => true | x :: r => okt x && all r end) args
  end.
Lemma okt_unfold o args : okt (T o args) = ok_node o args && forallb okt args.
Proof. reflexivity. Qed.
Lemma okt_args o args : okt (T o args) = true -> Forall (fun a => okt a = true) args.
Proof. rewrite okt_unfold. intros H. apply andb_true_iff in H. apply Forall_forall. apply forallb_forall. tauto. Qed.
Lemma okt_node o args : okt (T o args) = true -> ok_node o args = true.
Proof. rewrite okt_unfold. intros H. apply andb_true_iff in H. tauto. Qed.
Lemma okt_intro o args : ok_node o args = true -> Forall (fun a => okt a = true) args -> okt (T o args) = true.
Proof. intros H F. rewrite okt_unfold, H. apply forallb_forall. now apply Forall_forall. Qed.

(* ================================================================== typing helpers *)
Lemma tcs_Forall2 : forall args tys, tcs args = Some tys -> Forall2 (fun a t => tc a = Some t) args tys.
Proof.
  induction args as [|a r IH]; intros tys E; cbn in E.
  - inversion E. constructor.
  - destruct (tc a) eqn:Ea; [|discriminate]. destruct (tcs r) eqn:Er; [|discriminate]. inversion E. constructor; auto.
Qed.
Lemma Forall2_tcs : forall args tys, Forall2 (fun a t => tc a = Some t) args tys -> tcs args = Some tys.
Proof. induction 1 as [|a t r tr Ha Hr IH]; cbn; auto. now rewrite Ha, IH. Qed.
Lemma tc_inv o args ty : tc (T o args) = Some ty -> exists tys, tcs args = Some tys /\ tc_rule o tys = Some ty.
Proof. rewrite tc_tcs. destruct (tcs args); [eauto | discriminate]. Qed.
Lemma all_bool_inv tys t : type_to_type tys TBool TBool = Some t -> t = TBool /\ Forall (fun x => x = TBool) tys.
Proof.
  unfold type_to_type. destruct (forallb _ tys) eqn:E; [|discriminate]. intros H; inversion H. split; auto.
  apply Forall_forall. intros x Hx. rewrite forallb_forall in E. apply ty_eqb_eq. auto.
Qed.

Lemma ttt_out tys a b t : type_to_type tys a b = Some t -> t = b.
Proof. unfold type_to_type. destruct (forallb _ tys); [|discriminate]. now intros [= <-]. Qed.
Lemma bv_to_bool_out tys t : bv_to_bool tys = Some t -> t = TBool.
Proof. unfold bv_to_bool. destruct tys as [|[] ?]; try discriminate. destruct (forallb _ _); [|discriminate]. now intros [= <-]. Qed.
Lemma equals_out tys t : tc_rule OEquals tys = Some t -> t = TBool.
Proof.
  cbn. destruct tys as [|a r]; [discriminate|]. destruct a; try discriminate;
    first [apply ttt_out | apply bv_to_bool_out].
Qed.
(* Equals: both sides have the same sort, which is not Bool *)
Lemma ttt_pair a b t : type_to_type [a; b] a TBool = Some t -> a = b.
Proof.
  unfold type_to_type. destruct (forallb _ _) eqn:E; [|discriminate]. intros _.
  rewrite forallb_forall in E. symmetry. apply ty_eqb_eq. apply E. cbn; auto.
Qed.
Lemma equals_same a b t : tc_rule OEquals [a; b] = Some t -> a = b /\ a <> TBool.
Proof.
  cbn [tc_rule]. destruct a; try discriminate;
    try (intros H; apply ttt_pair in H; split; [exact H | discriminate]).
  cbn. destruct b; try discriminate. rewrite andb_true_r. destruct (Z.eqb_spec w w0); [|discriminate].
  subst. split; [reflexivity|discriminate].
Qed.

(* ================================================================== evaluation is compositional *)
Definition plain_op (o : op) : bool :=
  match o with OSymbol _ _ | OFunction _ _ | OForall _ | OExists _ => false | _ => true end.
Lemma eval_plain I o args : plain_op o = true -> eval I (T o args) = op_sem I o (map (eval I) args).
Proof. destruct o; cbn; try discriminate; reflexivity. Qed.
Lemma map_eval_Forall2 I : forall args args', Forall2 (fun a a' => eval I a' = eval I a) args args' ->
  map (eval I) args' = map (eval I) args.
Proof. induction 1; cbn; auto. now f_equal. Qed.

Definition is_vbool (v : value) : Prop := exists b, v = VBool b.
Lemma has_ty_bool v : has_ty v TBool -> is_vbool v.
Proof. destruct v; cbn; try contradiction. unfold is_vbool. eauto. Qed.
Lemma vbool_eta v : is_vbool v -> VBool (vbool v) = v.
Proof. intros [b ->]. reflexivity. Qed.

(* ================================================================== arithmetic values *)
Definition realval (v : value) : R := match v with VInt z => IZR z | VReal r => r | _ => 0%R end.
Definition num_ty (t : ty) (v : value) : Prop :=
  match t with TInt => exists z, v = VInt z | TReal => exists r, v = VReal r | _ => False end.
Lemma has_ty_num t v : arith t -> has_ty v t -> num_ty t v.
Proof. intros [-> | ->]; destruct v; cbn; try contradiction; eauto. Qed.
Lemma num_ty_has_ty t v : num_ty t v -> has_ty v t.
Proof. destruct t; cbn; try contradiction; intros [x ->]; exact Logic.I. Qed.
Lemma num_ty_inj t a b : num_ty t a -> num_ty t b -> realval a = realval b -> a = b.
Proof.
  destruct t; cbn; try contradiction; intros [x ->] [y ->]; cbn; intros H.
  - f_equal. now apply eq_IZR.
  - now f_equal.
Qed.
Lemma vadd_num t a b : num_ty t a -> num_ty t b -> num_ty t (vadd a b) /\ realval (vadd a b) = (realval a + realval b)%R.
Proof.
  destruct t; cbn; try contradiction; intros [x ->] [y ->]; cbn; split; eauto. now rewrite plus_IZR.
Qed.
Lemma vmul_num t a b : num_ty t a -> num_ty t b -> num_ty t (vmul a b) /\ realval (vmul a b) = (realval a * realval b)%R.
Proof.
  destruct t; cbn; try contradiction; intros [x ->] [y ->]; cbn; split; eauto. now rewrite mult_IZR.
Qed.
Lemma vsub_num t a b : num_ty t a -> num_ty t b -> num_ty t (vsub a b) /\ realval (vsub a b) = (realval a - realval b)%R.
Proof.
  destruct t; cbn; try contradiction; intros [x ->] [y ->]; cbn; split; eauto. now rewrite minus_IZR.
Qed.
Definition sumR (l : list value) : R := fold_right (fun v s => (realval v + s)%R) 0%R l.
Definition prodR (l : list value) : R := fold_right (fun v s => (realval v * s)%R) 1%R l.
Lemma fold_vadd_num t : forall l a, num_ty t a -> Forall (num_ty t) l ->
  num_ty t (fold_left vadd l a) /\ realval (fold_left vadd l a) = (realval a + sumR l)%R.
Proof.
  induction l as [|x r IH]; intros a Ha Hl.
  - cbn [fold_left]. split; auto. unfold sumR. cbn [fold_right]. lra.
  - inversion Hl; subst. destruct (vadd_num t a x Ha H1) as [N E]. destruct (IH _ N H2) as [N' E'].
    cbn [fold_left]. split; auto. rewrite E', E. change (sumR (x :: r)) with (realval x + sumR r)%R. lra.
Qed.
Lemma fold_vmul_num t : forall l a, num_ty t a -> Forall (num_ty t) l ->
  num_ty t (fold_left vmul l a) /\ realval (fold_left vmul l a) = (realval a * prodR l)%R.
Proof.
  induction l as [|x r IH]; intros a Ha Hl.
  - cbn [fold_left]. split; auto. unfold prodR. cbn [fold_right]. lra.
  - inversion Hl; subst. destruct (vmul_num t a x Ha H1) as [N E]. destruct (IH _ N H2) as [N' E'].
    cbn [fold_left]. split; auto. rewrite E', E. change (prodR (x :: r)) with (realval x * prodR r)%R. lra.
Qed.
Lemma plus_val I t vs : vs <> [] -> Forall (num_ty t) vs ->
  num_ty t (op_sem I OPlus vs) /\ realval (op_sem I OPlus vs) = sumR vs.
Proof.
  destruct vs as [|a r]; [congruence|]. intros _ H. inversion H; subst. cbn [op_sem].
  destruct (fold_vadd_num t r a H2 H3) as [N E]. split; auto.
Qed.
Lemma times_val I t vs : vs <> [] -> Forall (num_ty t) vs ->
  num_ty t (op_sem I OTimes vs) /\ realval (op_sem I OTimes vs) = prodR vs.
Proof.
  destruct vs as [|a r]; [congruence|]. intros _ H. inversion H; subst. cbn [op_sem].
  destruct (fold_vmul_num t r a H2 H3) as [N E]. split; auto.
Qed.
Lemma prodR_cons v l : prodR (v :: l) = (realval v * prodR l)%R.
Proof. reflexivity. Qed.
Lemma prodR_perm l l' : Permutation l l' -> prodR l = prodR l'.
Proof.
  induction 1 as [|x l l' H IH|x y l|l l' l'' H1 IH1 H2 IH2].
  - reflexivity.
  - rewrite !prodR_cons. now rewrite IH.
  - rewrite !prodR_cons. lra.
  - congruence.
Qed.
Lemma remove_first_perm {A} (eqb : A -> A -> bool) (Heq : forall a b, eqb a b = true -> a = b) x :
  forall l l', remove_first eqb x l = Some l' -> Permutation l (x :: l').
Proof.
  induction l as [|y r IH]; intros l' E; cbn in E; [discriminate|].
  destruct (eqb x y) eqn:Exy.
  - inversion E; subst. apply Heq in Exy. subst. reflexivity.
  - destruct (remove_first eqb x r) as [r'|] eqn:E2; [|discriminate]. inversion E; subst.
    rewrite (IH _ eq_refl). apply perm_swap.
Qed.
Lemma perm_eqb_perm {A} (eqb : A -> A -> bool) (Heq : forall a b, eqb a b = true -> a = b) :
  forall l1 l2, perm_eqb eqb l1 l2 = true -> Permutation l1 l2.
Proof.
  induction l1 as [|x r IH]; intros l2 E; cbn in E.
  - destruct l2; [constructor | discriminate].
  - destruct (remove_first eqb x l2) as [l2'|] eqn:E2; [|discriminate].
    rewrite (remove_first_perm eqb Heq x _ _ E2). constructor. now apply IH.
Qed.

(* ================================================================== bit-vector arithmetic on Z *)
Open Scope Z_scope.
Definition in_range (w x : Z) : Prop := 0 <= x < 2 ^ w.
Lemma pow2_pos w : 0 <= w -> 0 < 2 ^ w.
Proof. intros. apply Z.pow_pos_nonneg; lia. Qed.
Lemma range_log2 w x : 0 < w -> 0 <= x -> (x < 2 ^ w <-> x = 0 \/ Z.log2 x < w).
Proof.
  intros Hw Hx. destruct (Z.eq_dec x 0) as [->|Hn].
  - split; auto. intros _. now apply pow2_pos; lia.
  - rewrite Z.log2_lt_pow2 by lia. split; auto. intros [?|?]; [contradiction | auto].
Qed.
Lemma land_range w a b : 0 < w -> in_range w a -> in_range w b -> in_range w (Z.land a b).
Proof.
  intros Hw [A0 A1] [B0 B1]. split; [apply Z.land_nonneg; auto|].
  apply range_log2; auto; [apply Z.land_nonneg; auto|].
  destruct (Z.eq_dec (Z.land a b) 0) as [|Hn]; auto. right.
  pose proof (Z.log2_land a b A0 B0). apply (range_log2 w a) in A1; auto.
  destruct A1 as [->|A1]; [rewrite Z.land_0_l in Hn; contradiction|]. lia.
Qed.
Lemma lor_range w a b : 0 < w -> in_range w a -> in_range w b -> in_range w (Z.lor a b).
Proof.
  intros Hw [A0 A1] [B0 B1]. split; [apply Z.lor_nonneg; auto|].
  apply range_log2; auto; [apply Z.lor_nonneg; auto|].
  destruct (Z.eq_dec (Z.lor a b) 0) as [|Hn]; auto. right.
  rewrite (Z.log2_lor a b A0 B0).
  apply (range_log2 w a) in A1; auto. apply (range_log2 w b) in B1; auto.
  destruct A1 as [->|A1]; destruct B1 as [->|B1]; cbn [Z.log2] in *; try lia.
Qed.
Lemma lxor_range w a b : 0 < w -> in_range w a -> in_range w b -> in_range w (Z.lxor a b).
Proof.
  intros Hw [A0 A1] [B0 B1]. split; [apply Z.lxor_nonneg; lia|].
  apply range_log2; auto; [apply Z.lxor_nonneg; lia|].
  destruct (Z.eq_dec (Z.lxor a b) 0) as [|Hn]; auto. right.
  pose proof (Z.log2_lxor a b A0 B0).
  apply (range_log2 w a) in A1; auto. apply (range_log2 w b) in B1; auto.
  destruct A1 as [->|A1]; destruct B1 as [->|B1]; cbn [Z.log2] in *; try lia.
Qed.
Lemma mod_range w x : 0 <= w -> in_range w (x mod 2 ^ w).
Proof. intros Hw. apply Z.mod_pos_bound. now apply pow2_pos. Qed.
Lemma div_range w a b : in_range w a -> 0 < b -> in_range w (a / b).
Proof.
  intros [A0 A1] Hb. split; [apply Z.div_pos; lia|].
  apply Z.le_lt_trans with a; auto. apply Z.div_le_upper_bound; auto. nia.
Qed.
Lemma ones_mask w : 0 <= w -> Z.ones w = 2 ^ w - 1.
Proof. intros. rewrite Z.ones_equiv. lia. Qed.
Lemma land_mask w x : 0 <= w -> in_range w x -> Z.land (2 ^ w - 1) x = x /\ Z.land x (2 ^ w - 1) = x.
Proof.
  intros Hw [H0 H1]. rewrite <- ones_mask by auto. rewrite (Z.land_comm (Z.ones w) x), Z.land_ones by auto.
  rewrite Z.mod_small by lia. auto.
Qed.
Lemma lor_mask w x : 0 < w -> in_range w x -> Z.lor (2 ^ w - 1) x = 2 ^ w - 1 /\ Z.lor x (2 ^ w - 1) = 2 ^ w - 1.
Proof.
  intros Hw [H0 H1]. rewrite <- ones_mask by lia. rewrite (Z.lor_comm (Z.ones w) x).
  assert (G : Z.lor x (Z.ones w) = Z.ones w).
  { destruct (Z.eq_dec x 0) as [->|Hn]; [apply Z.lor_0_l|]. apply Z.lor_ones_low; auto. apply Z.log2_lt_pow2; lia. }
  auto.
Qed.
Lemma not_fold w v : 0 <= w -> in_range w v -> Z.land (- v - 1) (2 ^ w - 1) = 2 ^ w - 1 - v.
Proof.
  intros Hw [H0 H1]. pose proof (ones_mask w Hw) as E. rewrite <- E. rewrite Z.land_ones by auto. rewrite E.
  replace (- v - 1) with ((2 ^ w - 1 - v) + (-1) * 2 ^ w) by lia. rewrite Z.mod_add by lia. apply Z.mod_small. lia.
Qed.
Lemma neg_fold w v : 0 <= w -> (2 ^ w - v) mod 2 ^ w = (- v) mod 2 ^ w.
Proof. intros Hw. replace (2 ^ w - v) with (- v + 1 * 2 ^ w) by lia. apply Z.mod_add. pose proof (pow2_pos w Hw). lia. Qed.
(* signed reading *)
Lemma land_pow2 a n : 0 <= n -> Z.land a (2 ^ n) = if Z.testbit a n then 2 ^ n else 0.
Proof.
  intros Hn. apply Z.bits_inj'. intros m Hm. rewrite Z.land_spec, Z.pow2_bits_eqb by auto.
  destruct (Z.eqb_spec n m) as [->|Hne].
  - destruct (Z.testbit a m) eqn:E; [now rewrite Z.pow2_bits_eqb, Z.eqb_refl by auto | now rewrite Z.bits_0].
  - rewrite andb_false_r. destruct (Z.testbit a n); [rewrite Z.pow2_bits_eqb by auto; symmetry; now apply Z.eqb_neq | now rewrite Z.bits_0].
Qed.
Lemma testbit_top w v : 0 < w -> in_range w v -> Z.testbit v (w - 1) = (2 ^ (w - 1) <=? v).
Proof.
  intros Hw [V0 V1]. assert (Hp : 0 < 2 ^ (w - 1)) by (apply pow2_pos; lia).
  assert (E2 : 2 ^ w = 2 * 2 ^ (w - 1)) by (rewrite <- Z.pow_succ_r by lia; f_equal; lia).
  destruct (Z.leb_spec (2 ^ (w - 1)) v) as [H|H].
  - apply Z.testbit_true; [lia|]. assert (v / 2 ^ (w - 1) = 1); [|now rewrite H0].
    symmetry. apply (Z.div_unique v (2 ^ (w - 1)) 1 (v - 2 ^ (w - 1))); lia.
  - apply Z.testbit_false; [lia|]. now rewrite Z.div_small by lia.
Qed.
Lemma twos_complement_signed w v : 0 < w -> in_range w v -> twos_complement v w = to_signed w v.
Proof.
  intros Hw Hv. unfold twos_complement, to_signed, py_and, py_shl, py_pow. rewrite Z.shiftl_1_l.
  rewrite land_pow2 by lia. rewrite (testbit_top w v Hw Hv).
  assert (Hp : 0 < 2 ^ (w - 1)) by (apply pow2_pos; lia).
  destruct (Z.leb_spec (2 ^ (w - 1)) v) as [H|H].
  - rewrite (proj2 (Z.ltb_ge v (2 ^ (w - 1))) H). rewrite (proj2 (Z.eqb_neq _ 0)) by lia. reflexivity.
  - rewrite (proj2 (Z.ltb_lt v (2 ^ (w - 1))) H). rewrite Z.eqb_refl. reflexivity.
Qed.
Lemma signed_neg_msb w v : 0 < w -> in_range w v -> (to_signed w v <? 0) = msb w v.
Proof.
  intros Hw [V0 V1]. unfold to_signed, msb. destruct (Z.ltb_spec v (2 ^ (w - 1))); destruct (Z.leb_spec (2 ^ (w - 1)) v); try lia;
    first [apply Z.ltb_ge; lia | apply Z.ltb_lt; lia].
Qed.
Lemma udiv_range w a b : 0 < w -> in_range w a -> in_range w b -> in_range w (bv_udiv w a b).
Proof.
  intros Hw HA [B0 B1]. unfold bv_udiv. destruct (Z.eqb_spec b 0); [pose proof (pow2_pos w ltac:(lia)); split; lia | apply div_range; auto; lia].
Qed.
Lemma urem_range w a b : 0 < w -> in_range w a -> in_range w b -> in_range w (bv_urem w a b).
Proof.
  intros Hw [A0 A1] [B0 B1]. unfold bv_urem. destruct (Z.eqb_spec b 0); [split; auto|].
  pose proof (Z.mod_pos_bound a b ltac:(lia)). split; lia.
Qed.
Lemma neg_range w a : 0 < w -> in_range w (bv_neg w a).
Proof. intros. apply mod_range. lia. Qed.
Lemma sdiv_range w a b : 0 < w -> in_range w a -> in_range w b -> in_range w (bv_sdiv w a b).
Proof.
  intros Hw HA HB. unfold bv_sdiv. destruct (msb w a), (msb w b);
    repeat first [apply neg_range; auto | apply udiv_range; auto].
Qed.
Lemma srem_range w a b : 0 < w -> in_range w a -> in_range w b -> in_range w (bv_srem w a b).
Proof.
  intros Hw HA HB. unfold bv_srem. destruct (msb w a), (msb w b);
    repeat first [apply neg_range; auto | apply urem_range; auto].
Qed.

(* arithmetic shift: setting the top bits *)
Lemma lor_pow2_add v i : 0 <= i -> 0 <= v < 2 ^ i -> Z.lor v (2 ^ i) = v + 2 ^ i.
Proof.
  intros Hi [V0 V1].
  assert (Hl : Z.land v (2 ^ i) = 0).
  { rewrite land_pow2 by auto. replace (Z.testbit v i) with false; auto. symmetry.
    apply Z.testbit_false; auto. now rewrite Z.div_small by lia. }
  rewrite <- (Z.lxor_lor _ _ Hl). symmetry. now apply Z.add_nocarry_lxor.
Qed.
Lemma set_bits_range lo n : 0 <= lo -> 0 <= n < 2 ^ lo -> forall m : nat,
  fold_left (fun a i => set_bit a i true) (map (fun i => lo + Z.of_nat i) (seq 0 m)) n = n + 2 ^ (lo + Z.of_nat m) - 2 ^ lo.
Proof.
  intros Hlo Hn. induction m as [|m IH].
  - cbn. rewrite Z.add_0_r. lia.
  - rewrite seq_S, map_app, fold_left_app, IH. cbn [fold_left map Nat.add].
    unfold set_bit, py_or, py_shl. rewrite Z.shiftl_1_l.
    assert (Hp : 2 ^ lo <= 2 ^ (lo + Z.of_nat m)) by (apply Z.pow_le_mono_r; lia).
    rewrite lor_pow2_add by lia.
    replace (lo + Z.of_nat (S m)) with (Z.succ (lo + Z.of_nat m)) by lia. rewrite Z.pow_succ_r by lia. lia.
Qed.
Lemma ashr_neg_fold w x k : 0 < w -> in_range w x -> 0 <= k <= w ->
  x / 2 ^ k + 2 ^ w - 2 ^ (w - k) = ((x - 2 ^ w) / 2 ^ k) mod 2 ^ w.
Proof.
  intros Hw [X0 X1] Hk.
  assert (Hpk : 0 < 2 ^ k) by (apply pow2_pos; lia). assert (Hpw : 0 < 2 ^ w) by (apply pow2_pos; lia).
  assert (Hpd : 0 < 2 ^ (w - k)) by (apply pow2_pos; lia).
  assert (E : 2 ^ w = 2 ^ (w - k) * 2 ^ k) by (rewrite <- Z.pow_add_r by lia; f_equal; lia).
  replace (x - 2 ^ w) with (x + (- 2 ^ (w - k)) * 2 ^ k) by lia. rewrite Z.div_add by lia.
  assert (Hq : 0 <= x / 2 ^ k < 2 ^ (w - k)).
  { split; [apply Z.div_pos; lia|]. apply Z.div_lt_upper_bound; lia. }
  assert (Hle : 2 ^ (w - k) <= 2 ^ w) by (apply Z.pow_le_mono_r; lia).
  symmetry. replace (x / 2 ^ k + - 2 ^ (w - k)) with ((x / 2 ^ k + 2 ^ w - 2 ^ (w - k)) + (-1) * 2 ^ w) by lia.
  rewrite Z.mod_add by lia. apply Z.mod_small. lia.
Qed.

(* rotations *)
Lemma rol_split w x j : 0 < w -> in_range w x -> 0 <= j <= w ->
  (x * 2 ^ j) mod 2 ^ w + x / 2 ^ (w - j) = x / 2 ^ (w - j) + 2 ^ j * (x mod 2 ^ (w - j)) /\
  in_range w ((x * 2 ^ j) mod 2 ^ w + x / 2 ^ (w - j)).
Proof.
  intros Hw [X0 X1] Hj.
  assert (Hpj : 0 < 2 ^ j) by (apply pow2_pos; lia). assert (Hpd : 0 < 2 ^ (w - j)) by (apply pow2_pos; lia).
  assert (E : 2 ^ w = 2 ^ (w - j) * 2 ^ j) by (rewrite <- Z.pow_add_r by lia; f_equal; lia).
  assert (M : (x * 2 ^ j) mod 2 ^ w = (x mod 2 ^ (w - j)) * 2 ^ j) by (rewrite E; apply Z.mul_mod_distr_r; lia).
  rewrite M. split; [lia|].
  pose proof (Z.mod_pos_bound x (2 ^ (w - j)) Hpd) as [M0 M1].
  assert (Q : 0 <= x / 2 ^ (w - j) < 2 ^ j).
  { split; [apply Z.div_pos; lia|]. apply Z.div_lt_upper_bound; lia. }
  split; nia.
Qed.
Lemma rol_val w x k : 0 < w -> in_range w x -> 0 <= k <= w ->
  bv_rol w x k = x / 2 ^ (w - k) + 2 ^ k * (x mod 2 ^ (w - k)) /\ in_range w (bv_rol w x k).
Proof.
  intros Hw HX Hk. unfold bv_rol, bvmod. cbv zeta. destruct (Z.eq_dec k w) as [->|Hne].
  - rewrite Z_mod_same_full. rewrite Z.sub_0_r, Z.sub_diag, Z.pow_0_r, Z.mul_1_r, Z.mod_1_r, Z.div_1_r.
    destruct HX as [X0 X1]. rewrite (Z.mod_small x (2 ^ w)) by (split; assumption). rewrite (Z.div_small x (2 ^ w)) by (split; assumption).
    rewrite Z.mul_0_r. split; [reflexivity | split; lia].
  - rewrite (Z.mod_small k w) by lia. destruct (rol_split w x k Hw HX Hk) as [E R]. split; auto.
Qed.
Lemma rol_range w x k : 0 < w -> in_range w x -> in_range w (bv_rol w x k).
Proof.
  intros Hw HX. unfold bv_rol, bvmod. cbv zeta. pose proof (Z.mod_pos_bound k w Hw) as Hk.
  apply (rol_split w x (k mod w) Hw HX). lia.
Qed.
Lemma ror_val w x k : 0 < w -> in_range w x -> 0 <= k <= w ->
  bv_ror w x k = x / 2 ^ k + 2 ^ (w - k) * (x mod 2 ^ k).
Proof.
  intros Hw HX Hk. unfold bv_ror. cbv zeta. destruct HX as [X0 X1].
  destruct (Z.eq_dec k w) as [->|Hne]; [|destruct (Z.eq_dec k 0) as [->|Hn0]].
  - rewrite Z_mod_same_full, Z.sub_0_r. destruct (rol_val w x w Hw (conj X0 X1) ltac:(lia)) as [-> _].
    rewrite Z.sub_diag, Z.pow_0_r, Z.div_1_r, Z.mod_1_r, Z.mul_1_l. rewrite Z.div_small, Z.mod_small by lia. lia.
  - rewrite Z.mod_0_l, Z.sub_0_r by lia. destruct (rol_val w x w Hw (conj X0 X1) ltac:(lia)) as [-> _].
    rewrite Z.sub_diag, Z.pow_0_r, Z.div_1_r, Z.mod_1_r. lia.
  - rewrite (Z.mod_small k w) by lia. destruct (rol_val w x (w - k) Hw (conj X0 X1) ltac:(lia)) as [-> _].
    replace (w - (w - k)) with k by lia. reflexivity.
Qed.

Definition bvval (w : Z) (v : value) : Prop := exists x, v = VBV w x /\ in_range w x.
Lemma has_ty_bvval w v : has_ty v (TBV w) -> bvval w v.
Proof. destruct v; cbn; try contradiction. intros [-> H]. exists v. split; auto. Qed.
Lemma bvval_has_ty w v : bvval w v -> has_ty v (TBV w).
Proof. intros (x & -> & H). cbn. split; auto. Qed.
Lemma bvop1_range k w a : 0 < w -> (k = BNot \/ k = BNeg) -> bvval w a -> bvval w (bvop_sem k w [a]).
Proof.
  intros Hw Hk (x & -> & [X0 X1]). destruct Hk as [-> | ->]; cbn; eexists; (split; [reflexivity|]).
  - split; lia.
  - apply mod_range. lia.
Qed.
Lemma bvop2_range k w a b : 0 < w ->
  (match k with BAnd | BOr | BXor | BAdd | BSub | BMul | BUdiv | BUrem | BLshl | BLshr | BSdiv | BSrem | BAshr => True | _ => False end) ->
  bvval w a -> bvval w b -> bvval w (bvop_sem k w [a; b]).
Proof.
  intros Hw Hk (x & -> & HX) (y & -> & HY). pose proof HX as [X0 X1]. pose proof HY as [Y0 Y1].
  destruct k; try contradiction; cbn; eexists; (split; [reflexivity|]).
  - now apply land_range.
  - now apply lor_range.
  - now apply lxor_range.
  - apply mod_range; lia.
  - apply mod_range; lia.
  - apply mod_range; lia.
  - unfold bv_udiv. destruct (Z.eqb_spec y 0); [split; lia | apply div_range; auto; lia].
  - unfold bv_urem. destruct (Z.eqb_spec y 0); auto. pose proof (Z.mod_pos_bound x y ltac:(lia)). split; lia.
  - unfold bv_shl. destruct (w <=? y); [split; [lia | apply pow2_pos; lia] | apply mod_range; lia].
  - unfold bv_lshr. destruct (w <=? y); [split; [lia | apply pow2_pos; lia] | apply div_range; auto; apply pow2_pos; lia].
  - now apply sdiv_range.
  - now apply srem_range.
  - apply mod_range. lia.
Qed.
Close Scope Z_scope.

(* Pow: exponents *)
Lemma nat_of_real_IZR n : (0 <= n)%Z -> nat_of_real (IZR n) = Some (Z.to_nat n).
Proof.
  intros Hn. unfold nat_of_real.
  assert (Hup : up (IZR n) = (n + 1)%Z).
  { symmetry. apply tech_up; rewrite plus_IZR; lra. }
  rewrite Hup. replace (n + 1 - 1)%Z with n by lia.
  destruct (Req_EM_T (INR (Z.to_nat n)) (IZR n)) as [_|H]; auto.
  exfalso. apply H. rewrite INR_IZR_INZ. f_equal. now apply Z2Nat.id.
Qed.
Lemma nat_of_real_neg n : (n < 0)%Z -> nat_of_real (IZR n) = None.
Proof.
  intros Hn. unfold nat_of_real. destruct (Req_EM_T _ (IZR n)) as [E|]; auto. exfalso.
  pose proof (pos_INR (Z.to_nat (up (IZR n) - 1))) as P. rewrite E in P. apply le_IZR in P. lia.
Qed.
Lemma pow_IZR_nat z n : (0 <= n)%Z -> IZR (z ^ n) = (IZR z ^ Z.to_nat n)%R.
Proof. intros Hn. rewrite pow_IZR. f_equal. f_equal. now rewrite Z2Nat.id. Qed.
Lemma Rdiv_pow a b k : b <> 0%R -> ((a / b) ^ k = a ^ k / b ^ k)%R.
Proof.
  intros Hb. induction k as [|k IH]; cbn; [field|]. rewrite IH. field. split; auto. now apply pow_nonzero.
Qed.
(* typing of the arithmetic operators *)
Lemma arith_rule_inv tys t :
  match type_to_type tys TReal TReal with Some t0 => Some t0 | None => type_to_type tys TInt TInt end = Some t ->
  arith t /\ Forall (fun x => x = t) tys.
Proof. apply realint_inv. Qed.
Lemma rel_rule_inv tys t :
  match tys with
  | TReal :: _ => type_to_type tys TReal TBool
  | _ :: _ => type_to_type tys TInt TBool
  | [] => None
  end = Some t -> t = TBool /\ exists u, arith u /\ Forall (fun x => x = u) tys.
Proof.
  destruct tys as [|a r]; [discriminate|]. destruct a; intros H;
    pose proof (ttt_out _ _ _ _ H) as ->; apply type_to_type_inv in H; destruct H as [H _]; split; auto;
    first [exists TReal; split; [right; reflexivity | exact H] | exists TInt; split; [left; reflexivity | exact H]].
Qed.

(* ================================================================== type soundness on the fragment *)
Lemma wf_bind1' I v x : wfi I -> has_ty x (snd v) -> wfi (bind1 I v x).
Proof.
  intros [H1 H2] Hx. split; [|exact H2]. intros n t Hs. cbn [bind1 isym].
  destruct (String.eqb n (fst v) && ty_eqb t (snd v)) eqn:E; [|apply H1; auto].
  apply andb_true_iff in E. destruct E as [_ E]. apply ty_eqb_eq in E. now subst t.
Qed.
Lemma wf_bind' : forall vs xs I, wfi I -> vals_ok xs vs -> wfi (Sem.bind I vs xs).
Proof.
  induction vs as [|v vs IH]; intros [|x xs] I H Hok; cbn in *; auto; try contradiction.
  destruct Hok. apply IH; auto. now apply wf_bind1'.
Qed.

(* lists two elements at a time *)
Lemma list_ind2 {A} (P : list A -> Prop) :
  P [] -> (forall x, P [x]) -> (forall x y r, P r -> P (x :: y :: r)) -> forall l, P l.
Proof.
  intros H0 H1 H2. fix IH 1. intros [|x [|y r]]; [apply H0 | apply H1 | apply H2; apply IH].
Qed.
(* the key of a value of a sort is a key of that sort *)
Lemma has_ty_key_sortb v t : has_ty v t -> key_sortb (to_key v) t = true.
Proof.
  destruct t, v; cbn; try contradiction; auto.
  - intros [-> [H0 H1]]. rewrite Z.eqb_refl, (proj2 (Z.leb_le 0 v)), (proj2 (Z.ltb_lt v (2 ^ w))); auto.
  - intros ->. apply String.eqb_refl.
Qed.
(* an array value of sort (Array it e): values of sort e on the keys of sort it, junk elsewhere *)
Definition arr_ok (it e : ty) (f : key -> value) : Prop :=
  forall k, if key_sortb k it then has_ty (f k) e else f k = junk.
Fixpoint pairs_all {A} (P : A -> A -> Prop) (l : list A) : Prop :=
  match l with i :: v :: r => P i v /\ pairs_all P r | _ => True end.
Lemma arr_assign_has_ty it e : forall l f, arr_ok it e f ->
  pairs_all (fun i v => key_sortb (to_key i) it = true /\ has_ty v e) l -> arr_ok it e (arr_assign f l).
Proof.
  induction l as [| x | x y r IH] using list_ind2; intros f Hf Hv k; cbn; try apply Hf.
  destruct Hv as [[Hx Hy] Hr]. destruct (key_eq_dec k (to_key x)) as [->|]; [now rewrite Hx | now apply IH].
Qed.
Lemma pairs_all_map {A B} (f : A -> B) (P : B -> B -> Prop) : forall l, pairs_all (fun a b => P (f a) (f b)) l -> pairs_all P (map f l).
Proof. induction l as [| x | x y r IH] using list_ind2; cbn; auto. intros [H1 H2]. auto. Qed.
Lemma pairs_all_pairs (P : term -> term -> Prop) : forall l, (forall kv, In kv (pairs_of l) -> P (fst kv) (snd kv)) -> pairs_all P l.
Proof.
  induction l as [| x | x y r IH] using list_ind2; cbn; auto. intros H. split.
  - apply (H (x, y)). auto.
  - apply IH. intros kv Hin. apply H. auto.
Qed.
Lemma cdef_ok it e d : has_ty d e -> arr_ok it e (fun k => if key_sortb k it then d else junk).
Proof. intros H k. destruct (key_sortb k it); auto. Qed.
Lemma array_value_ok_snd it td : forall (rest : list term) trest,
  Forall2 (fun a t => tc a = Some t) rest trest -> array_value_ok it td trest true = true ->
  Forall (fun kv => tc (fst kv) = Some it /\ tc (snd kv) = Some td) (pairs_of rest).
Proof.
  induction rest as [| x | x y r IH] using list_ind2; intros trest F2 H; cbn; try constructor.
  - inversion F2 as [|? tx ? ? Hx F2']; subst. inversion F2' as [|? ty0 ? ? Hy F2'']; subst.
    cbn in H. apply andb_true_iff in H. destruct H as [H1 H]. apply andb_true_iff in H. destruct H as [H2 H].
    apply ty_eqb_eq in H1, H2. subst. auto.
  - inversion F2 as [|? tx ? ? Hx F2']; subst. inversion F2' as [|? ty0 ? ? Hy F2'']; subst.
    cbn in H. apply andb_true_iff in H. destruct H as [H1 H]. apply andb_true_iff in H. destruct H as [H2 H].
    eapply IH; eauto.
Qed.
Lemma pairs_of_In (l : list term) kv : In kv (pairs_of l) -> In (fst kv) l /\ In (snd kv) l.
Proof.
  induction l as [| x | x y r IH] using list_ind2; cbn; try contradiction.
  intros [<-|H]; cbn; auto. destruct (IH H). auto.
Qed.

Lemma str_rule_out k tys t : tc_rule (OStr k) tys = Some t -> t = TStr \/ t = TInt \/ t = TBool.
Proof.
  destruct k; cbn; intros H; try (apply ttt_out in H; auto).
  - destruct tys as [|[] [|[] [|[] [|? ?]]]]; try discriminate. inversion H; auto.
  - destruct tys as [|[] [|[] [|[] [|? ?]]]]; try discriminate. inversion H; auto.
  - destruct tys as [|[] [|[] [|? ?]]]; try discriminate. inversion H; auto.
Qed.
Lemma has_ty_str v : has_ty v TStr -> exists s, v = VStr s.
Proof. destruct v; cbn; try contradiction; eauto. Qed.
Lemma has_ty_int v : has_ty v TInt -> exists z, v = VInt z.
Proof. destruct v; cbn; try contradiction; eauto. Qed.
Lemma all_str_vals vs tys : Forall2 has_ty vs tys -> all_are TStr tys -> Forall (fun v => exists s, v = VStr s) vs.
Proof.
  induction 1 as [|v t vs tys Hv Hr IH]; intros Ha; constructor; inversion Ha; subst; auto. now apply has_ty_str.
Qed.
Lemma strop_has_ty k vs tys ty : tc_rule (OStr k) tys = Some ty -> Forall2 has_ty vs tys ->
  str_arity k (List.length vs) = true -> has_ty (strop_sem k vs) ty.
Proof.
  intros Hr F Ha. destruct k; cbn in Hr, Ha.
  - apply type_to_type_inv in Hr. destruct Hr as [Hall ->]. pose proof (all_str_vals _ _ F Hall) as Hs.
    destruct vs as [|a [|? ?]]; try discriminate. inversion Hs as [|? ? [s ->] _]; subst. exact Logic.I.
  - apply type_to_type_inv in Hr. destruct Hr as [Hall ->]. pose proof (all_str_vals _ _ F Hall) as Hs.
    destruct vs as [|a r]; [discriminate|]. inversion Hs as [|? ? [s ->] _]; subst. exact Logic.I.
  - apply type_to_type_inv in Hr. destruct Hr as [Hall ->]. pose proof (all_str_vals _ _ F Hall) as Hs.
    destruct vs as [|a [|b [|? ?]]]; try discriminate. inversion Hs as [|? ? [s ->] Hs']; subst. inversion Hs' as [|? ? [t ->] _]; subst. exact Logic.I.
  - destruct tys as [|[] [|[] [|[] [|? ?]]]]; try discriminate. inversion Hr; subst.
    inversion F as [|a ? ? ? Ha' F']; subst. inversion F' as [|b ? ? ? Hb' F'']; subst. inversion F'' as [|c ? ? ? Hc' F3]; subst. inversion F3; subst.
    apply has_ty_str in Ha', Hb'. apply has_ty_int in Hc'. destruct Ha' as [? ->], Hb' as [? ->], Hc' as [? ->]. exact Logic.I.
  - apply type_to_type_inv in Hr. destruct Hr as [Hall ->]. pose proof (all_str_vals _ _ F Hall) as Hs.
    destruct vs as [|a [|b [|c [|? ?]]]]; try discriminate. inversion Hs as [|? ? [s ->] Hs']; subst. inversion Hs' as [|? ? [t ->] Hs'']; subst.
    inversion Hs'' as [|? ? [u ->] _]; subst. exact Logic.I.
  - destruct tys as [|[] [|[] [|[] [|? ?]]]]; try discriminate. inversion Hr; subst.
    inversion F as [|a ? ? ? Ha' F']; subst. inversion F' as [|b ? ? ? Hb' F'']; subst. inversion F'' as [|c ? ? ? Hc' F3]; subst. inversion F3; subst.
    apply has_ty_str in Ha'. apply has_ty_int in Hb', Hc'. destruct Ha' as [? ->], Hb' as [? ->], Hc' as [? ->]. exact Logic.I.
  - apply type_to_type_inv in Hr. destruct Hr as [Hall ->]. pose proof (all_str_vals _ _ F Hall) as Hs.
    destruct vs as [|a [|b [|? ?]]]; try discriminate. inversion Hs as [|? ? [s ->] Hs']; subst. inversion Hs' as [|? ? [t ->] _]; subst. exact Logic.I.
  - apply type_to_type_inv in Hr. destruct Hr as [Hall ->]. pose proof (all_str_vals _ _ F Hall) as Hs.
    destruct vs as [|a [|b [|? ?]]]; try discriminate. inversion Hs as [|? ? [s ->] Hs']; subst. inversion Hs' as [|? ? [t ->] _]; subst. exact Logic.I.
  - apply type_to_type_inv in Hr. destruct Hr as [Hall ->]. pose proof (all_str_vals _ _ F Hall) as Hs.
    destruct vs as [|a [|? ?]]; try discriminate. inversion Hs as [|? ? [s ->] _]; subst. exact Logic.I.
  - apply type_to_type_inv in Hr. destruct Hr as [Hall ->].
    destruct vs as [|a [|? ?]]; try discriminate. inversion F as [|? t0 ? ? Ha' F']; subst. inversion Hall; subst.
    apply has_ty_int in Ha'. destruct Ha' as [? ->]. exact Logic.I.
  - destruct tys as [|[] [|[] [|? ?]]]; try discriminate. inversion Hr; subst.
    inversion F as [|a ? ? ? Ha' F']; subst. inversion F' as [|b ? ? ? Hb' F'']; subst. inversion F''; subst.
    apply has_ty_str in Ha'. apply has_ty_int in Hb'. destruct Ha' as [? ->], Hb' as [? ->]. exact Logic.I.
Qed.

Theorem okt_sound : forall t I ty, okt t = true -> tc t = Some ty -> wfi I -> has_ty (eval I t) ty.
Proof.
  induction t as [o args IH] using term_ind'. intros I ty Hok Htc Hwf.
  pose proof (okt_args _ _ Hok) as Hargs. pose proof (okt_node _ _ Hok) as Hn.
  destruct (tc_inv _ _ _ Htc) as (tys & Htys & Hr).
  pose proof (tcs_Forall2 _ _ Htys) as F2.
  assert (HN : forall u, arith u -> Forall (fun x => x = u) tys -> Forall (num_ty u) (map (eval I) args)).
  { intros u Hu Hall. clear Hr Hn Htys Htc Hok. induction F2 as [|a t r tr Ha Hr IHr]; cbn; constructor.
    - inversion Hall; subst. apply has_ty_num; auto. apply (Forall_inv IH); auto. exact (Forall_inv Hargs).
    - inversion Hall; subst. apply IHr; auto. exact (Forall_inv_tail IH). exact (Forall_inv_tail Hargs). }
  assert (HB : forall w, Forall (fun x => x = TBV w) tys -> Forall (bvval w) (map (eval I) args)).
  { intros w Hall. clear Hr Hn Htys Htc Hok HN. induction F2 as [|a t r tr Ha Hr IHr]; cbn; constructor.
    - inversion Hall; subst. apply has_ty_bvval. apply (Forall_inv IH); auto. exact (Forall_inv Hargs).
    - inversion Hall; subst. apply IHr; auto. exact (Forall_inv_tail IH). exact (Forall_inv_tail Hargs). }
  assert (HT : Forall2 has_ty (map (eval I) args) tys).
  { clear Hr Hn Htys Htc Hok HN HB. induction F2 as [|a t r tr Ha Hr IHr]; cbn; constructor.
    - apply (Forall_inv IH); auto. exact (Forall_inv Hargs).
    - apply IHr; auto. exact (Forall_inv_tail IH). exact (Forall_inv_tail Hargs). }
  destruct o; cbn [ok_node] in Hn; try discriminate Hn; try (cbn [tc_rule] in Hr).
  - (* forall *) destruct args as [|b [|? ?]]; try discriminate. inversion F2; subst. inversion H3; subst.
    destruct y; try discriminate. cbn in Hr. inversion Hr. cbn. exact Logic.I.
  - (* exists *) destruct args as [|b [|? ?]]; try discriminate. inversion F2; subst. inversion H3; subst.
    destruct y; try discriminate. cbn in Hr. inversion Hr. cbn. exact Logic.I.
  - apply all_bool_inv in Hr. destruct Hr as [-> _]. rewrite eval_plain by reflexivity. exact Logic.I.
  - apply all_bool_inv in Hr. destruct Hr as [-> _]. rewrite eval_plain by reflexivity. exact Logic.I.
  - apply all_bool_inv in Hr. destruct Hr as [-> _]. rewrite eval_plain by reflexivity.
    destruct args as [|a [|? ?]]; try discriminate. exact Logic.I.
  - apply all_bool_inv in Hr. destruct Hr as [-> _]. rewrite eval_plain by reflexivity.
    destruct args as [|a [|b [|? ?]]]; try discriminate. exact Logic.I.
  - apply all_bool_inv in Hr. destruct Hr as [-> _]. rewrite eval_plain by reflexivity.
    destruct args as [|a [|b [|? ?]]]; try discriminate. exact Logic.I.
  - (* symbol *) destruct tys; [|discriminate]. inversion Hr; subst. cbn. now apply wf_isym.
  - (* function *) destruct t; try discriminate. destruct (tys_eqb tys ps); [|discriminate]. inversion Hr; subst.
    apply andb_true_iff in Hn. destruct Hn as [Hi _]. cbn. destruct Hwf as [_ H2]. now apply H2.
  - (* real *) destruct tys; [|discriminate]. inversion Hr. inversion F2; subst. cbn. exact Logic.I.
  - destruct tys; [|discriminate]. inversion Hr. inversion F2; subst. cbn. exact Logic.I.
  - destruct tys; [|discriminate]. inversion Hr. inversion F2; subst. cbn. exact Logic.I.
  - destruct tys; [|discriminate]. inversion Hr. inversion F2; subst. cbn. exact Logic.I.
  - (* plus *) apply arith_rule_inv in Hr. destruct Hr as [Har Hall]. rewrite eval_plain by reflexivity.
    pose proof (HN ty Har Hall) as Hv. destruct args as [|a r]; [discriminate|]. cbn [map op_sem]. inversion Hv; subst.
    apply num_ty_has_ty. now apply (fold_vadd_num ty).
  - (* minus *) apply arith_rule_inv in Hr. destruct Hr as [Har Hall]. rewrite eval_plain by reflexivity.
    pose proof (HN ty Har Hall) as Hv. destruct args as [|a [|b [|? ?]]]; try discriminate. cbn [map op_sem].
    inversion Hv as [|? ? Ha Hv']; subst. inversion Hv' as [|? ? Hb ?]; subst.
    apply num_ty_has_ty. now apply (vsub_num ty).
  - (* times *) apply arith_rule_inv in Hr. destruct Hr as [Har Hall]. rewrite eval_plain by reflexivity.
    pose proof (HN ty Har Hall) as Hv. destruct args as [|a r]; [discriminate|]. cbn [map op_sem]. inversion Hv; subst.
    apply num_ty_has_ty. now apply (fold_vmul_num ty).
  - (* le *) apply rel_rule_inv in Hr. destruct Hr as [-> _]. rewrite eval_plain by reflexivity.
    destruct args as [|a [|b [|? ?]]]; try discriminate. cbn [map op_sem]. unfold vle.
    destruct (eval I a); try exact Logic.I; destruct (eval I b); exact Logic.I.
  - (* lt *) apply rel_rule_inv in Hr. destruct Hr as [-> _]. rewrite eval_plain by reflexivity.
    destruct args as [|a [|b [|? ?]]]; try discriminate. cbn [map op_sem]. unfold vlt.
    destruct (eval I a); try exact Logic.I; destruct (eval I b); exact Logic.I.
  - (* equals *) destruct args as [|a [|b [|? ?]]]; try discriminate. rewrite eval_plain by reflexivity.
    apply equals_out in Hr. subst. exact Logic.I.
  - (* ite *) destruct args as [|c [|a [|b [|? ?]]]]; try discriminate. rewrite eval_plain by reflexivity.
    inversion F2 as [|? tc0 ? ? Hc F2']; subst. inversion F2' as [|? ta ? ? Ha F2'']; subst.
    inversion F2'' as [|? tb ? ? Hb F2''']; subst. inversion F2'''; subst.
    cbn in Hr. destruct (ty_eqb tc0 TBool && ty_eqb ta tb) eqn:E; [|discriminate]. inversion Hr; subst.
    apply andb_true_iff in E. destruct E as [_ E]. apply ty_eqb_eq in E. subst tb.
    inversion IH as [|? ? IHc IH']; subst. inversion IH' as [|? ? IHa IH'']; subst. inversion IH'' as [|? ? IHb ?]; subst.
    inversion Hargs as [|? ? Oc O']; subst. inversion O' as [|? ? Oa O'']; subst. inversion O'' as [|? ? Ob ?]; subst.
    cbn. destruct (vbool (eval I c)); auto.
  - (* toreal *) pose proof (ttt_out _ _ _ _ Hr) as ->. apply type_to_type_inv in Hr. destruct Hr as [Hall _].
    rewrite eval_plain by reflexivity. pose proof (HN TInt (or_introl eq_refl) Hall) as Hv.
    destruct args as [|a [|? ?]]; try discriminate. cbn [map op_sem]. inversion Hv as [|? ? [z Hz] ?]; subst.
    rewrite Hz. exact Logic.I.
  - (* bvc *) destruct tys; [|discriminate]. inversion Hr. inversion F2; subst. cbn.
    apply andb_true_iff in Hn. destruct Hn as [Hn H3]. apply andb_true_iff in Hn. destruct Hn as [H1 H2].
    apply Z.leb_le in H2. apply Z.ltb_lt in H3. split; auto.
  - (* bv operators *)
    apply andb_true_iff in Hn. destruct Hn as [Hw Hk]. apply Z.ltb_lt in Hw. rewrite eval_plain by reflexivity.
    assert (Hgen : forall (Hg : match k with BConcat | BComp => False | _ => True end),
               ty = TBV w /\ Forall (fun x => x = TBV w) tys).
    { intros Hg. destruct k; try contradiction; cbn in Hr;
        (destruct (forallb (fun a => ty_eqb a (TBV w)) tys) eqn:Ef; [|discriminate]); inversion Hr; split; auto;
        apply Forall_forall; intros x Hx; rewrite forallb_forall in Ef; apply ty_eqb_eq; auto. }
    destruct k; try discriminate Hk.
    + destruct (Hgen Logic.I) as [-> Hall]. destruct args as [|a [|? ?]]; try discriminate. pose proof (HB w Hall) as Hv. inversion Hv; subst.
      apply bvval_has_ty. apply bvop1_range; auto.
    + destruct (Hgen Logic.I) as [-> Hall]. destruct args as [|a [|b [|? ?]]]; try discriminate. pose proof (HB w Hall) as Hv.
      inversion Hv as [|? ? Va Hv']; subst. inversion Hv' as [|? ? Vb ?]; subst. apply bvval_has_ty. now apply bvop2_range.
    + destruct (Hgen Logic.I) as [-> Hall]. destruct args as [|a [|b [|? ?]]]; try discriminate. pose proof (HB w Hall) as Hv.
      inversion Hv as [|? ? Va Hv']; subst. inversion Hv' as [|? ? Vb ?]; subst. apply bvval_has_ty. now apply bvop2_range.
    + destruct (Hgen Logic.I) as [-> Hall]. destruct args as [|a [|b [|? ?]]]; try discriminate. pose proof (HB w Hall) as Hv.
      inversion Hv as [|? ? Va Hv']; subst. inversion Hv' as [|? ? Vb ?]; subst. apply bvval_has_ty. now apply bvop2_range.
    + (* concat *)
      destruct args as [|a [|b [|? ?]]]; try discriminate.
      inversion F2 as [|? ta ? ? Ha F2']; subst. inversion F2' as [|? tb ? ? Hb F2'']; subst. inversion F2''; subst.
      cbn in Hr. destruct ta as [| | | |wa| | |]; try discriminate. destruct tb as [| | | |wb| | |]; try discriminate.
      destruct (Z.eqb_spec (wa + wb) w); [|discriminate]. inversion Hr; subst.
      pose proof (Forall_inv IH I _ (Forall_inv Hargs) Ha Hwf) as Hva.
      pose proof (Forall_inv (Forall_inv_tail IH) I _ (Forall_inv (Forall_inv_tail Hargs)) Hb Hwf) as Hvb.
      apply has_ty_bvval in Hva, Hvb. cbn [map]. destruct Hva as (x & -> & [X0 X1]). destruct Hvb as (y & -> & [Y0 Y1]).
      cbn. split; auto.
      assert (Hwa : (0 <= wa)%Z). { destruct (Z.le_gt_cases 0 wa); auto. rewrite Z.pow_neg_r in X1 by lia. lia. }
      assert (Hwb : (0 <= wb)%Z). { destruct (Z.le_gt_cases 0 wb); auto. rewrite Z.pow_neg_r in Y1 by lia. lia. }
      rewrite Z.pow_add_r by auto. split; nia.
    + destruct (Hgen Logic.I) as [-> Hall]. destruct args as [|a [|? ?]]; try discriminate. pose proof (HB w Hall) as Hv. inversion Hv; subst.
      apply bvval_has_ty. apply bvop1_range; auto.
    + destruct (Hgen Logic.I) as [-> Hall]. destruct args as [|a [|b [|? ?]]]; try discriminate. pose proof (HB w Hall) as Hv.
      inversion Hv as [|? ? Va Hv']; subst. inversion Hv' as [|? ? Vb ?]; subst. apply bvval_has_ty. now apply bvop2_range.
    + destruct (Hgen Logic.I) as [-> Hall]. destruct args as [|a [|b [|? ?]]]; try discriminate. pose proof (HB w Hall) as Hv.
      inversion Hv as [|? ? Va Hv']; subst. inversion Hv' as [|? ? Vb ?]; subst. apply bvval_has_ty. now apply bvop2_range.
    + destruct (Hgen Logic.I) as [-> Hall]. destruct args as [|a [|b [|? ?]]]; try discriminate. pose proof (HB w Hall) as Hv.
      inversion Hv as [|? ? Va Hv']; subst. inversion Hv' as [|? ? Vb ?]; subst. apply bvval_has_ty. now apply bvop2_range.
    + destruct (Hgen Logic.I) as [-> Hall]. destruct args as [|a [|b [|? ?]]]; try discriminate. pose proof (HB w Hall) as Hv.
      inversion Hv as [|? ? Va Hv']; subst. inversion Hv' as [|? ? Vb ?]; subst. apply bvval_has_ty. now apply bvop2_range.
    + destruct (Hgen Logic.I) as [-> Hall]. destruct args as [|a [|b [|? ?]]]; try discriminate. pose proof (HB w Hall) as Hv.
      inversion Hv as [|? ? Va Hv']; subst. inversion Hv' as [|? ? Vb ?]; subst. apply bvval_has_ty. now apply bvop2_range.
    + destruct (Hgen Logic.I) as [-> Hall]. destruct args as [|a [|b [|? ?]]]; try discriminate. pose proof (HB w Hall) as Hv.
      inversion Hv as [|? ? Va Hv']; subst. inversion Hv' as [|? ? Vb ?]; subst. apply bvval_has_ty. now apply bvop2_range.
    + destruct (Hgen Logic.I) as [-> Hall]. destruct args as [|a [|b [|? ?]]]; try discriminate. pose proof (HB w Hall) as Hv.
      inversion Hv as [|? ? Va Hv']; subst. inversion Hv' as [|? ? Vb ?]; subst. apply bvval_has_ty. now apply bvop2_range.
    + (* comp *)
      apply andb_true_iff in Hk. destruct Hk as [Hl Hw1]. destruct args as [|a [|b [|? ?]]]; try discriminate.
      inversion F2 as [|? ta ? ? Ha F2']; subst. inversion F2' as [|? tb ? ? Hb F2'']; subst. inversion F2''; subst.
      cbn in Hr. destruct (ty_eqb ta tb && is_bv ta) eqn:E; [|discriminate]. inversion Hr; subst.
      apply andb_true_iff in E. destruct E as [E1 E2]. apply ty_eqb_eq in E1. subst tb. destruct ta as [| | | |wa| | |]; try discriminate.
      pose proof (Forall_inv IH I _ (Forall_inv Hargs) Ha Hwf) as Hva.
      pose proof (Forall_inv (Forall_inv_tail IH) I _ (Forall_inv (Forall_inv_tail Hargs)) Hb Hwf) as Hvb.
      apply has_ty_bvval in Hva, Hvb. cbn [map]. destruct Hva as (x & -> & _). destruct Hvb as (y & -> & _).
      cbn. split; auto. destruct (x =? y)%Z; lia.
    + destruct (Hgen Logic.I) as [-> Hall]. destruct args as [|a [|b [|? ?]]]; try discriminate. pose proof (HB w Hall) as Hv.
      inversion Hv as [|? ? Va Hv']; subst. inversion Hv' as [|? ? Vb ?]; subst. apply bvval_has_ty. now apply bvop2_range.
    + destruct (Hgen Logic.I) as [-> Hall]. destruct args as [|a [|b [|? ?]]]; try discriminate. pose proof (HB w Hall) as Hv.
      inversion Hv as [|? ? Va Hv']; subst. inversion Hv' as [|? ? Vb ?]; subst. apply bvval_has_ty. now apply bvop2_range.
    + destruct (Hgen Logic.I) as [-> Hall]. destruct args as [|a [|b [|? ?]]]; try discriminate. pose proof (HB w Hall) as Hv.
      inversion Hv as [|? ? Va Hv']; subst. inversion Hv' as [|? ? Vb ?]; subst. apply bvval_has_ty. now apply bvop2_range.
  - (* bv relations *)
    rewrite eval_plain by reflexivity. apply bv_to_bool_out in Hr. subst ty.
    destruct k; try discriminate Hn; destruct args as [|a [|b [|? ?]]]; try discriminate; cbn [map op_sem bvrel_sem];
      destruct (eval I a); try exact Logic.I; destruct (eval I b); exact Logic.I.
  - (* extract *)
    rewrite eval_plain by reflexivity. destruct args as [|a [|? ?]]; try discriminate.
    apply andb_true_iff in Hn. destruct Hn as [Hn Hse]. apply andb_true_iff in Hn. destruct Hn as [_ Hs0]. apply Z.leb_le in Hse, Hs0.
    inversion F2 as [|? ta ? ? Ha F2']; subst. inversion F2'; subst. cbn in Hr. destruct ta as [| | | |wa| | |]; try discriminate.
    destruct ((s >=? wa)%Z || (e >=? wa)%Z); [discriminate|]. destruct (wa <? w)%Z; [discriminate|].
    destruct (Z.eqb_spec w (e - s + 1)) as [->|]; [|discriminate]. cbn in Hr. inversion Hr; subst ty.
    pose proof (Forall_inv IH I _ (Forall_inv Hargs) Ha Hwf) as Hva. apply has_ty_bvval in Hva. cbn [map]. destruct Hva as (x & -> & _).
    cbn. split; auto. unfold bv_extract. apply mod_range. lia.
  - (* rol *)
    rewrite eval_plain by reflexivity. destruct args as [|a [|? ?]]; try discriminate.
    apply andb_true_iff in Hn. destruct Hn as [_ Hw]. apply Z.ltb_lt in Hw.
    inversion F2 as [|? ta ? ? Ha F2']; subst. inversion F2'; subst. cbn in Hr.
    destruct ((w <? k)%Z || (w <? 0)%Z || (k <? 0)%Z); [discriminate|]. destruct ta as [| | | |wa| | |]; try discriminate.
    destruct (Z.eqb_spec w wa) as [<-|]; [|discriminate]. inversion Hr; subst ty.
    pose proof (Forall_inv IH I _ (Forall_inv Hargs) Ha Hwf) as Hva. apply has_ty_bvval in Hva. cbn [map]. destruct Hva as (x & -> & Rx).
    cbn. split; auto. now apply rol_range.
  - (* ror *)
    rewrite eval_plain by reflexivity. destruct args as [|a [|? ?]]; try discriminate.
    apply andb_true_iff in Hn. destruct Hn as [_ Hw]. apply Z.ltb_lt in Hw.
    inversion F2 as [|? ta ? ? Ha F2']; subst. inversion F2'; subst. cbn in Hr.
    destruct ((w <? k)%Z || (w <? 0)%Z || (k <? 0)%Z); [discriminate|]. destruct ta as [| | | |wa| | |]; try discriminate.
    destruct (Z.eqb_spec w wa) as [<-|]; [|discriminate]. inversion Hr; subst ty.
    pose proof (Forall_inv IH I _ (Forall_inv Hargs) Ha Hwf) as Hva. apply has_ty_bvval in Hva. cbn [map]. destruct Hva as (x & -> & Rx).
    cbn. split; auto. unfold bv_ror. now apply rol_range.
  - (* zext *)
    rewrite eval_plain by reflexivity. destruct args as [|a [|? ?]]; try discriminate.
    inversion F2 as [|? ta ? ? Ha F2']; subst. inversion F2'; subst. cbn in Hr. destruct ta as [| | | |wa| | |]; try discriminate.
    destruct (Z.ltb_spec w wa) as [|Hle]; [discriminate|]. destruct (w <? 0)%Z; [discriminate|]. cbn in Hr. inversion Hr; subst ty.
    pose proof (Forall_inv IH I _ (Forall_inv Hargs) Ha Hwf) as Hva. apply has_ty_bvval in Hva. cbn [map]. destruct Hva as (x & -> & [X0 X1]).
    cbn. split; auto. split; auto. apply Z.lt_le_trans with (2 ^ wa)%Z; auto.
    destruct (Z.le_gt_cases 0 wa); [apply Z.pow_le_mono_r; lia | rewrite Z.pow_neg_r in X1 by lia; lia].
  - (* sext *)
    rewrite eval_plain by reflexivity. destruct args as [|a [|? ?]]; try discriminate.
    inversion F2 as [|? ta ? ? Ha F2']; subst. inversion F2'; subst. cbn in Hr. destruct ta as [| | | |wa| | |]; try discriminate.
    destruct (Z.ltb_spec w wa) as [|Hle]; [discriminate|]. destruct (Z.ltb_spec w 0) as [|Hw0]; [discriminate|]. cbn in Hr. inversion Hr; subst ty.
    pose proof (Forall_inv IH I _ (Forall_inv Hargs) Ha Hwf) as Hva. apply has_ty_bvval in Hva. cbn [map]. destruct Hva as (x & -> & _).
    cbn. split; auto. now apply mod_range.
  - (* strings *)
    rewrite eval_plain by reflexivity. cbn [op_sem]. apply (strop_has_ty k _ tys); auto. now rewrite map_length.
  - (* select *)
    rewrite eval_plain by reflexivity. destruct args as [|a [|i [|? ?]]]; try discriminate.
    inversion F2 as [|? ta ? ? Ha F2']; subst. inversion F2' as [|? ti ? ? Hi F2'']; subst. inversion F2''; subst.
    cbn in Hr. destruct ta as [| | | | |i0 e| |]; try discriminate.
    destruct (ty_eqb i0 ti) eqn:Et; [|discriminate]. apply ty_eqb_eq in Et. subst ti. inversion Hr; subst ty.
    pose proof (Forall_inv IH I _ (Forall_inv Hargs) Ha Hwf) as Hva.
    pose proof (Forall_inv (Forall_inv_tail IH) I _ (Forall_inv (Forall_inv_tail Hargs)) Hi Hwf) as Hvi. cbn [map op_sem].
    destruct (eval I a); try contradiction. cbn in Hva. specialize (Hva (to_key (eval I i))).
    now rewrite (has_ty_key_sortb _ _ Hvi) in Hva.
  - (* store *)
    rewrite eval_plain by reflexivity. destruct args as [|a [|i [|v [|? ?]]]]; try discriminate.
    inversion F2 as [|? ta ? ? Ha F2']; subst. inversion F2' as [|? ti ? ? Hi F2'']; subst.
    inversion F2'' as [|? tv ? ? Hv F3]; subst. inversion F3; subst.
    cbn in Hr. destruct ta as [| | | | |i0 e| |]; try discriminate. destruct (ty_eqb i0 ti && ty_eqb e tv) eqn:E; [|discriminate]. inversion Hr; subst ty.
    apply andb_true_iff in E. destruct E as [E0 E]. apply ty_eqb_eq in E0, E. subst tv ti.
    pose proof (Forall_inv IH I _ (Forall_inv Hargs) Ha Hwf) as Hva.
    pose proof (Forall_inv (Forall_inv_tail IH) I _ (Forall_inv (Forall_inv_tail Hargs)) Hi Hwf) as Hvi.
    pose proof (Forall_inv (Forall_inv_tail (Forall_inv_tail IH)) I _ (Forall_inv (Forall_inv_tail (Forall_inv_tail Hargs))) Hv Hwf) as Hvv.
    cbn [map op_sem]. destruct (eval I a); try contradiction. cbn. intros k.
    destruct (key_eq_dec k (to_key (eval I i))) as [->|]; [now rewrite (has_ty_key_sortb _ _ Hvi) | apply Hva].
  - (* array value *)
    rewrite eval_plain by reflexivity. destruct args as [|d rest]; try discriminate.
    inversion F2 as [|? td ? trest Hd F2']; subst. cbn in Hr. destruct (array_value_ok it td trest true) eqn:Eav; [|discriminate].
    inversion Hr; subst ty. cbn [map op_sem]. cbn [has_ty].
    pose proof (Forall_inv IH I _ (Forall_inv Hargs) Hd Hwf) as Hvd.
    apply (arr_assign_has_ty it td); [now apply cdef_ok|]. apply pairs_all_map. apply pairs_all_pairs. intros kv Hkv.
    pose proof (array_value_ok_snd it td rest trest F2' Eav) as Fp. rewrite Forall_forall in Fp. destruct (Fp kv Hkv) as [Tk Tv].
    destruct (pairs_of_In _ _ Hkv) as [Hink Hin].
    pose proof (Forall_inv_tail IH) as IHr. pose proof (Forall_inv_tail Hargs) as Or. rewrite Forall_forall in IHr, Or.
    split; [apply has_ty_key_sortb|]; apply IHr; auto.
  - (* div *) apply arith_rule_inv in Hr. destruct Hr as [Har Hall]. rewrite eval_plain by reflexivity.
    pose proof (HN ty Har Hall) as Hv. destruct args as [|a [|b [|? ?]]]; try discriminate. cbn [map op_sem].
    inversion Hv as [|? ? Ha Hv']; subst. inversion Hv' as [|? ? Hb ?]; subst.
    destruct Har as [-> | ->]; destruct Ha as [x ->]; destruct Hb as [y ->]; exact Logic.I.
  - (* pow *) rewrite eval_plain by reflexivity.
    destruct args as [|a [|e rest]]; try discriminate.
    destruct rest; [|destruct e as [[] [|]]; discriminate Hn].
    inversion F2 as [|? ta ? ? Ha F2']; subst. inversion F2' as [|? te ? ? He F2'']; subst. inversion F2''; subst.
    pose proof (Forall_inv IH I ta (Forall_inv Hargs) Ha Hwf) as Hva. cbn [map op_sem].
    destruct e as [oe le]. destruct oe; try discriminate Hn; destruct le; try discriminate Hn.
    + (* Real exponent n / 1 *)
      apply Z.eqb_eq in Hn. subst den.
      cbn in He. inversion He; subst te. cbn in Hr. destruct (ty_eqb ta TReal) eqn:Et; [|discriminate].
      apply ty_eqb_eq in Et. subst ta. cbn in Hr. inversion Hr; subst ty. destruct (eval I a); try contradiction. cbn.
      replace (Q2R' num 1) with (IZR num) by (unfold Q2R'; field).
      destruct (Z.le_gt_cases 0 num) as [Hn0|Hn0].
      * rewrite (nat_of_real_IZR _ Hn0). exact Logic.I.
      * rewrite (nat_of_real_neg num) by lia. rewrite <- opp_IZR. rewrite (nat_of_real_IZR (- num)) by lia. exact Logic.I.
    + (* Int exponent *)
      cbn in He. inversion He; subst te. cbn in Hr. destruct (ty_eqb ta TInt) eqn:Et; [|discriminate].
      apply ty_eqb_eq in Et. subst ta. cbn in Hr. inversion Hr; subst ty. destruct (eval I a); try contradiction. cbn.
      destruct (0 <=? z)%Z; exact Logic.I.
  - (* bv2nat *)
    rewrite eval_plain by reflexivity. destruct args as [|a [|? ?]]; try discriminate.
    inversion F2 as [|? ta ? ? Ha F2']; subst. inversion F2'; subst. cbn in Hr. destruct ta as [| | | |wa| | |]; try discriminate.
    inversion Hr; subst. pose proof (Forall_inv IH I _ (Forall_inv Hargs) Ha Hwf) as Hva.
    apply has_ty_bvval in Hva. cbn [map]. destruct Hva as (x & -> & _). exact Logic.I.
Qed.
Corollary okt_bool t I : okt t = true -> tc t = Some TBool -> wfi I -> is_vbool (eval I t).
Proof. intros. apply has_ty_bool. eapply okt_sound; eauto. Qed.

(* ================================================================== Bool-typed fragment terms *)
Section Rules.
Variable I : interp.
Hypothesis Hwf : wfi I.

Definition bterm (a : term) : Prop := okt a = true /\ tc a = Some TBool.
Definition bv (a : term) : bool := vbool (eval I a).
Lemma bterm_eval a : bterm a -> eval I a = VBool (bv a).
Proof. intros [H1 H2]. unfold bv. symmetry. apply vbool_eta. now apply okt_bool. Qed.

Lemma tcs_nil_inv l : tcs l = Some [] -> l = [].
Proof. destruct l as [|a r]; auto. cbn. destruct (tc a); [|discriminate]. destruct (tcs r); discriminate. Qed.
Lemma const_no_args o l ty : tc (T o l) = Some ty ->
  match o with OBoolC _ | OIntC _ | ORealC _ _ | OBVC _ _ | OStrC _ | OSymbol _ _ => True | _ => False end -> l = [].
Proof.
  intros H Ho. destruct (tc_inv _ _ _ H) as (tys & Ht & Hr).
  destruct o; try contradiction; cbn in Hr; (destruct tys; [now apply tcs_nil_inv | discriminate]).
Qed.
Lemma bterm_boolc a b : bterm a -> top a = OBoolC b -> a = TBoolC b.
Proof.
  destruct a as [o l]. cbn. intros [_ H] ->. unfold TBoolC. f_equal. eapply const_no_args; eauto. exact Logic.I.
Qed.
Lemma bterm_TBoolC b : bterm (TBoolC b).
Proof. split; reflexivity. Qed.
Lemma bv_TBoolC b : bv (TBoolC b) = b.
Proof. reflexivity. Qed.

Lemma tcs_all_bool l : Forall (fun a => tc a = Some TBool) l -> tcs l = Some (map (fun _ => TBool) l).
Proof. induction 1 as [|a r Ha Hr IH]; cbn; auto. now rewrite Ha, IH. Qed.
Lemma ttt_all_bool {A} (l : list A) : type_to_type (map (fun _ => TBool) l) TBool TBool = Some TBool.
Proof. unfold type_to_type. replace (forallb _ _) with true; auto. induction l; cbn; auto. Qed.
Lemma tc_bool_node o l : (o = OAnd \/ o = OOr \/ o = ONot \/ o = OImplies \/ o = OIff) ->
  Forall (fun a => tc a = Some TBool) l -> tc (T o l) = Some TBool.
Proof.
  intros Ho H. rewrite tc_tcs, (tcs_all_bool _ H).
  destruct Ho as [-> | [-> | [-> | [-> | ->]]]]; cbn [tc_rule]; apply ttt_all_bool.
Qed.
(* arguments of a Bool connective node of the fragment are Bool-typed fragment terms *)
Lemma bterm_args o l : (o = OAnd \/ o = OOr \/ o = ONot \/ o = OImplies \/ o = OIff) ->
  bterm (T o l) -> Forall bterm l.
Proof.
  intros Ho [H1 H2]. pose proof (okt_args _ _ H1) as F. destruct (tc_inv _ _ _ H2) as (tys & Ht & Hr).
  assert (Hall : Forall (fun x => x = TBool) tys).
  { destruct Ho as [-> | [-> | [-> | [-> | ->]]]]; cbn [tc_rule] in Hr; apply all_bool_inv in Hr; tauto. }
  pose proof (tcs_Forall2 _ _ Ht) as F2. clear - F F2 Hall.
  induction F2 as [|a t r tr Ha Hr IH]; constructor.
  - inversion F; subst. inversion Hall; subst. split; auto.
  - inversion F; subst. inversion Hall; subst. auto.
Qed.
Lemma bterm_node o l : (o = OAnd \/ o = OOr \/ o = ONot \/ o = OImplies \/ o = OIff) ->
  ok_node o l = true -> Forall bterm l -> bterm (T o l).
Proof.
  intros Ho Hn F. split.
  - apply okt_intro; auto. eapply Forall_impl; [|exact F]. intros a [H _]; exact H.
  - apply tc_bool_node; auto. eapply Forall_impl; [|exact F]. intros a [_ H]; exact H.
Qed.
Lemma map_eval_bv l : Forall bterm l -> map (eval I) l = map (fun a => VBool (bv a)) l.
Proof. induction 1 as [|a r Ha Hr IH]; cbn; auto. now rewrite (bterm_eval _ Ha), IH. Qed.
Lemma forallb_vbool_bv l : Forall bterm l -> forallb vbool (map (eval I) l) = forallb bv l.
Proof. intros H. rewrite (map_eval_bv _ H). induction l; cbn; auto. inversion H; subst. now rewrite IHl. Qed.
Lemma existsb_vbool_bv l : Forall bterm l -> existsb vbool (map (eval I) l) = existsb bv l.
Proof. intros H. rewrite (map_eval_bv _ H). induction l; cbn; auto. inversion H; subst. now rewrite IHl. Qed.
Lemma bv_and l : Forall bterm l -> bv (T OAnd l) = forallb bv l.
Proof. intros H. unfold bv at 1. rewrite eval_plain by reflexivity. cbn. now apply forallb_vbool_bv. Qed.
Lemma bv_or l : Forall bterm l -> bv (T OOr l) = existsb bv l.
Proof. intros H. unfold bv at 1. rewrite eval_plain by reflexivity. cbn. now apply existsb_vbool_bv. Qed.
Lemma bv_not a : bv (T ONot [a]) = negb (bv a).
Proof. reflexivity. Qed.

(* ------------------------------------------------------------------ Not *)
Lemma not_shape l : bterm (T ONot l) -> exists x, l = [x] /\ bterm x.
Proof.
  intros H. pose proof (bterm_args ONot l (or_intror (or_intror (or_introl eq_refl))) H) as F.
  destruct H as [H _]. apply okt_node in H. cbn in H.
  destruct l as [|x [|? ?]]; try discriminate. inversion F; subst. eauto.
Qed.
Lemma mk_not_sound a : bterm a -> bterm (mk_not a) /\ bv (mk_not a) = negb (bv a).
Proof.
  intros Ha. unfold mk_not. destruct (is_not a) eqn:E.
  - apply is_not_top in E. destruct a as [o l]. cbn in E. subst o.
    destruct (not_shape _ Ha) as (x & -> & Hx). change (arg (T ONot [x]) 0) with x. split; auto. rewrite bv_not. now rewrite negb_involutive.
  - split; [|reflexivity]. apply bterm_node; auto; tauto.
Qed.
Lemma r_not_sound a : bterm a -> bterm (r_not a) /\ bv (r_not a) = negb (bv a).
Proof.
  intros Ha. unfold r_not. destruct (top a) eqn:E; try (apply mk_not_sound; exact Ha).
  - (* Not *) destruct a as [o l]. cbn in E. subst o.
    destruct (not_shape _ Ha) as (x & -> & Hx). change (arg (T ONot [x]) 0) with x. split; auto. rewrite bv_not. now rewrite negb_involutive.
  - rewrite (bterm_boolc _ _ Ha E). split; [apply bterm_TBoolC | reflexivity].
Qed.

(* ------------------------------------------------------------------ And / Or *)
Lemma mk_and_sound l : Forall bterm l -> bterm (mk_and l) /\ bv (mk_and l) = forallb bv l.
Proof.
  intros H. unfold mk_and. destruct l as [|x [|y r]].
  - split; [apply bterm_TBoolC | reflexivity].
  - inversion H; subst. split; auto. cbn. now rewrite andb_true_r.
  - split; [apply bterm_node; auto | now apply bv_and].
Qed.
Lemma mk_or_sound l : Forall bterm l -> bterm (mk_or l) /\ bv (mk_or l) = existsb bv l.
Proof.
  intros H. unfold mk_or. destruct l as [|x [|y r]].
  - split; [apply bterm_TBoolC | reflexivity].
  - inversion H; subst. split; auto. cbn. now rewrite orb_false_r.
  - split; [apply bterm_node; auto | now apply bv_or].
Qed.

Lemma mem_term_In x l : mem term_eqb x l = true -> In x l.
Proof. apply (mem_In term_eqb term_eqb_eq). Qed.
Lemma forallb_In {A} (f : A -> bool) x l : In x l -> forallb f l = true -> f x = true.
Proof. intros Hx H. rewrite forallb_forall in H. auto. Qed.
Lemma existsb_In {A} (f : A -> bool) x l : In x l -> f x = true -> existsb f l = true.
Proof. intros Hx H. apply existsb_exists. eauto. Qed.
Lemma Forall_add_b s acc : bterm s -> Forall bterm acc -> Forall bterm (add term_eqb s acc).
Proof. intros Hs Ha. unfold add. destruct (mem term_eqb s acc); auto. apply Forall_app; auto. Qed.
Lemma forallb_add s acc : forallb bv (add term_eqb s acc) = forallb bv acc && bv s.
Proof.
  unfold add. destruct (mem term_eqb s acc) eqn:E.
  - apply mem_term_In in E. destruct (forallb bv acc) eqn:F; auto. cbn. symmetry. eapply forallb_In; eauto.
  - rewrite forallb_app. cbn. now rewrite andb_true_r.
Qed.
Lemma existsb_add s acc : existsb bv (add term_eqb s acc) = existsb bv acc || bv s.
Proof.
  unfold add. destruct (mem term_eqb s acc) eqn:E.
  - apply mem_term_In in E. destruct (bv s) eqn:F; [|now rewrite orb_false_r].
    rewrite orb_true_r. eapply existsb_In; eauto.
  - rewrite existsb_app. cbn. now rewrite orb_false_r.
Qed.

Lemma add_lits_and ls : forall acc, Forall bterm ls -> Forall bterm acc ->
  match add_lits ls acc with
  | Some l => Forall bterm l /\ forallb bv l = forallb bv acc && forallb bv ls
  | None => forallb bv acc && forallb bv ls = false
  end.
Proof.
  induction ls as [|s r IH]; intros acc Hls Hacc; cbn.
  - split; auto. now rewrite andb_true_r.
  - inversion Hls; subst. destruct (mem term_eqb (r_not s) acc) eqn:E.
    + apply mem_term_In in E. destruct (r_not_sound s H1) as [_ Hn].
      destruct (bv s) eqn:Bs; cbn; [|now rewrite andb_false_r].
      replace (forallb bv acc) with false; auto. symmetry.
      destruct (forallb bv acc) eqn:F; auto. pose proof (forallb_In _ _ _ E F) as G. rewrite Hn in G. discriminate.
    + specialize (IH (add term_eqb s acc) H2 (Forall_add_b _ _ H1 Hacc)).
      destruct (add_lits r (add term_eqb s acc)).
      * destruct IH as [F E2]. split; auto. rewrite E2, forallb_add. now rewrite andb_assoc.
      * rewrite forallb_add in IH. now rewrite andb_assoc.
Qed.
Lemma add_lits_or ls : forall acc, Forall bterm ls -> Forall bterm acc ->
  match add_lits ls acc with
  | Some l => Forall bterm l /\ existsb bv l = existsb bv acc || existsb bv ls
  | None => existsb bv acc || existsb bv ls = true
  end.
Proof.
  induction ls as [|s r IH]; intros acc Hls Hacc; cbn.
  - split; auto. now rewrite orb_false_r.
  - inversion Hls; subst. destruct (mem term_eqb (r_not s) acc) eqn:E.
    + apply mem_term_In in E. destruct (r_not_sound s H1) as [_ Hn].
      destruct (bv s) eqn:Bs; cbn; [now rewrite orb_true_r|].
      replace (existsb bv acc) with true; auto. symmetry. eapply existsb_In; eauto.
    + specialize (IH (add term_eqb s acc) H2 (Forall_add_b _ _ H1 Hacc)).
      destruct (add_lits r (add term_eqb s acc)).
      * destruct IH as [F E2]. split; auto. rewrite E2, existsb_add. now rewrite orb_assoc.
      * rewrite existsb_add in IH. now rewrite orb_assoc.
Qed.

Lemma is_true_bv a : bterm a -> is_true a = true -> bv a = true.
Proof.
  intros Ha. unfold is_true. destruct (top a) eqn:E; try discriminate. destruct b; [|discriminate].
  intros _. now rewrite (bterm_boolc _ _ Ha E).
Qed.
Lemma is_false_bv a : bterm a -> is_false a = true -> bv a = false.
Proof.
  intros Ha. unfold is_false. destruct (top a) eqn:E; try discriminate. destruct b; [discriminate|].
  intros _. now rewrite (bterm_boolc _ _ Ha E).
Qed.

Lemma and_loop_sound args : forall acc, Forall bterm args -> Forall bterm acc ->
  match nary_loop is_true is_false is_and args acc with
  | Some l => Forall bterm l /\ forallb bv l = forallb bv acc && forallb bv args
  | None => forallb bv acc && forallb bv args = false
  end.
Proof.
  induction args as [|a r IH]; intros acc Hargs Hacc; cbn [nary_loop].
  - split; auto. cbn. now rewrite andb_true_r.
  - inversion Hargs; subst. destruct (is_true a) eqn:Et.
    + specialize (IH acc H2 Hacc). cbn [forallb]. rewrite (is_true_bv _ H1 Et). exact IH.
    + destruct (is_false a) eqn:Ef.
      * cbn. rewrite (is_false_bv _ H1 Ef). now rewrite andb_false_r.
      * assert (Hl : Forall bterm (if is_and a then targs a else [a]) /\
                     forallb bv (if is_and a then targs a else [a]) = bv a).
        { destruct (is_and a) eqn:Ea.
          - apply is_and_top in Ea. destruct a as [o l]. cbn in Ea. subst o. cbn [targs].
            pose proof (bterm_args OAnd l (or_introl eq_refl) H1) as F. split; auto. symmetry. now apply bv_and.
          - split; [auto|]. cbn. now rewrite andb_true_r. }
        destruct Hl as [Hl1 Hl2].
        pose proof (add_lits_and _ acc Hl1 Hacc) as HA.
        destruct (add_lits (if is_and a then targs a else [a]) acc) as [acc'|].
        -- destruct HA as [F E]. specialize (IH acc' H2 F).
           destruct (nary_loop is_true is_false is_and r acc').
           ++ destruct IH as [F' E']. split; auto. cbn [forallb]. rewrite E', E, Hl2. now rewrite andb_assoc.
           ++ cbn [forallb]. rewrite E, Hl2 in IH. now rewrite andb_assoc.
        -- cbn [forallb]. rewrite Hl2 in HA. rewrite andb_assoc, HA. reflexivity.
Qed.
Lemma or_loop_sound args : forall acc, Forall bterm args -> Forall bterm acc ->
  match nary_loop is_false is_true is_or args acc with
  | Some l => Forall bterm l /\ existsb bv l = existsb bv acc || existsb bv args
  | None => existsb bv acc || existsb bv args = true
  end.
Proof.
  induction args as [|a r IH]; intros acc Hargs Hacc; cbn [nary_loop].
  - split; auto. cbn. now rewrite orb_false_r.
  - inversion Hargs; subst. destruct (is_false a) eqn:Et.
    + specialize (IH acc H2 Hacc). cbn [existsb]. rewrite (is_false_bv _ H1 Et). exact IH.
    + destruct (is_true a) eqn:Ef.
      * cbn. rewrite (is_true_bv _ H1 Ef). now rewrite orb_true_r.
      * assert (Hl : Forall bterm (if is_or a then targs a else [a]) /\
                     existsb bv (if is_or a then targs a else [a]) = bv a).
        { destruct (is_or a) eqn:Ea.
          - apply is_or_top in Ea. destruct a as [o l]. cbn in Ea. subst o. cbn [targs].
            pose proof (bterm_args OOr l (or_intror (or_introl eq_refl)) H1) as F. split; auto. symmetry. now apply bv_or.
          - split; [auto|]. cbn. now rewrite orb_false_r. }
        destruct Hl as [Hl1 Hl2].
        pose proof (add_lits_or _ acc Hl1 Hacc) as HA.
        destruct (add_lits (if is_or a then targs a else [a]) acc) as [acc'|].
        -- destruct HA as [F E]. specialize (IH acc' H2 F).
           destruct (nary_loop is_false is_true is_or r acc').
           ++ destruct IH as [F' E']. split; auto. cbn [existsb]. rewrite E', E, Hl2. now rewrite orb_assoc.
           ++ cbn [existsb]. rewrite E, Hl2 in IH. now rewrite orb_assoc.
        -- cbn [existsb]. rewrite Hl2 in HA. rewrite orb_assoc, HA. reflexivity.
Qed.
End Rules.

(* ================================================================== quantified variables *)
(* a value of every inhabited sort *)
Fixpoint dval (t : ty) : value :=
  match t with
  | TBool => VBool false | TInt => VInt 0 | TReal => VReal 0 | TStr => VStr []
  | TBV w => VBV w 0 | TArr i e => VArr (fun k => if key_sortb k i then dval e else junk) | TUser n _ => VU n 0
  | TFun _ _ => VBool false
  end.
Lemma dval_has_ty t : inhb t = true -> has_ty (dval t) t.
Proof.
  induction t; cbn; intros H; auto; try discriminate.
  - apply Z.ltb_lt in H. split; auto. split; [lia|]. apply Z.pow_pos_nonneg; lia.
  - apply andb_true_iff in H. intros k. destruct (key_sortb k t1); [tauto | reflexivity].
Qed.

Lemma sbind_ifun : forall vs xs J, ifun (Sem.bind J vs xs) = ifun J.
Proof. induction vs as [|v vs IH]; intros [|x xs] J; cbn [Sem.bind]; auto. now rewrite IH. Qed.
Lemma sbind_rdiv0 : forall vs xs J, rdiv0 (Sem.bind J vs xs) = rdiv0 J.
Proof. induction vs as [|v vs IH]; intros [|x xs] J; cbn [Sem.bind]; auto. now rewrite IH. Qed.
Lemma sbind_idiv0 : forall vs xs J, idiv0 (Sem.bind J vs xs) = idiv0 J.
Proof. induction vs as [|v vs IH]; intros [|x xs] J; cbn [Sem.bind]; auto. now rewrite IH. Qed.

Definition var_in (v : var) (vs : list var) : bool := mem var_eqb v vs.
Lemma var_in_In v vs : var_in v vs = true <-> In v vs.
Proof. apply (mem_In var_eqb var_eqb_eq). Qed.
Lemma bind1_isym J v x n t :
  isym (bind1 J v x) n t = if var_eqb (n, t) v then x else isym J n t.
Proof. reflexivity. Qed.

(* binding the variables vs to the values a function g gives them *)
Lemma sbind_map_isym (g : var -> value) : forall vs J n t,
  isym (Sem.bind J vs (map g vs)) n t = if var_in (n, t) vs then g (n, t) else isym J n t.
Proof.
  induction vs as [|v vs IH]; intros J n t; cbn [Sem.bind map]; [reflexivity|].
  rewrite IH. unfold var_in. cbn [mem existsb]. fold (mem var_eqb (n, t) vs).
  destruct (mem var_eqb (n, t) vs) eqn:E; [now rewrite orb_true_r|].
  rewrite orb_false_r, bind1_isym. destruct (var_eqb (n, t) v) eqn:Ev; auto.
  apply var_eqb_eq in Ev. now subst.
Qed.
Lemma vals_ok_map (g : var -> value) : forall vs, (forall v, In v vs -> has_ty (g v) (snd v)) -> vals_ok (map g vs) vs.
Proof. induction vs as [|v vs IH]; intros H; cbn; auto. split; [apply H; cbn; auto | apply IH; intros; apply H; cbn; auto]. Qed.
Lemma sbind_isym_out : forall vs xs J n t, ~ In (n, t) vs -> isym (Sem.bind J vs xs) n t = isym J n t.
Proof.
  induction vs as [|v vs IH]; intros xs J n t Hn; destruct xs as [|x xs]; cbn [Sem.bind]; auto.
  rewrite IH by (intros H; apply Hn; cbn; auto). rewrite bind1_isym.
  destruct (var_eqb (n, t) v) eqn:E; auto. apply var_eqb_eq in E. exfalso. apply Hn. cbn; auto.
Qed.
Lemma sbind_isym_ty : forall vs xs J n t, vals_ok xs vs -> In (n, t) vs -> has_ty (isym (Sem.bind J vs xs) n t) t.
Proof.
  induction vs as [|v vs IH]; intros xs J n t Hok Hin; [contradiction|].
  destruct xs as [|x xs]; cbn in Hok; [contradiction|]. destruct Hok as [Hx Hok]. cbn [Sem.bind].
  destruct (var_in (n, t) vs) eqn:E.
  - apply IH; auto. now apply var_in_In.
  - assert (Hn : ~ In (n, t) vs) by (intros H; apply var_in_In in H; congruence).
    destruct Hin as [Hv|Hin]; [|contradiction]. subst v.
    rewrite sbind_isym_out by exact Hn. rewrite bind1_isym.
    rewrite (proj2 (var_eqb_eq _ _) eq_refl). exact Hx.
Qed.

(* the bodies seen through two variable lists that agree on the free variables of b *)
Lemma bind_cover I vs vs' b :
  (forall v, In v (fv b) -> (In v vs <-> In v vs')) ->
  (forall v, In v vs -> inhb (snd v) = true) ->
  forall xs', vals_ok xs' vs' ->
  exists xs, vals_ok xs vs /\ eval (Sem.bind I vs xs) b = eval (Sem.bind I vs' xs') b.
Proof.
  intros Hset Hinh xs' Hok'.
  set (g := fun v : var => if var_in v vs' then isym (Sem.bind I vs' xs') (fst v) (snd v) else dval (snd v)).
  exists (map g vs). split.
  - apply vals_ok_map. intros [n t] Hv. unfold g. cbn [fst snd].
    destruct (var_in (n, t) vs') eqn:E.
    + apply sbind_isym_ty; auto. now apply var_in_In.
    + apply dval_has_ty. exact (Hinh _ Hv).
  - apply coincidence_gen. repeat split.
    + now rewrite !sbind_rdiv0.
    + now rewrite !sbind_idiv0.
    + intros n t Hfv. rewrite sbind_map_isym. destruct (var_in (n, t) vs) eqn:E.
      * apply var_in_In in E. apply (Hset _ Hfv) in E. unfold g. cbn [fst snd].
        now rewrite (proj2 (var_in_In _ _) E).
      * assert (Hn : ~ In (n, t) vs) by (intros H; apply var_in_In in H; congruence).
        assert (Hn' : ~ In (n, t) vs') by (intros H; apply Hn; now apply (Hset _ Hfv)).
        now rewrite sbind_isym_out by exact Hn'.
    + intros n t _. now rewrite !sbind_ifun.
Qed.

Lemma emi_bool (P Q : Prop) : (P <-> Q) ->
  VBool (if excluded_middle_informative P then true else false) =
  VBool (if excluded_middle_informative Q then true else false).
Proof. intros H. f_equal. now apply emi_iff. Qed.

Lemma quant_vars_equiv I vs vs' b :
  (forall v, In v (fv b) -> (In v vs <-> In v vs')) ->
  (forall v, In v vs -> inhb (snd v) = true) -> (forall v, In v vs' -> inhb (snd v) = true) ->
  eval I (T (OForall vs) [b]) = eval I (T (OForall vs') [b]) /\
  eval I (T (OExists vs) [b]) = eval I (T (OExists vs') [b]).
Proof.
  intros Hset H1 H2.
  assert (Hset' : forall v, In v (fv b) -> (In v vs' <-> In v vs)) by (intros v Hv; symmetry; auto).
  split; cbn [eval]; apply emi_bool; split.
  - intros H xs' Hok'. destruct (bind_cover I vs vs' b Hset H1 xs' Hok') as (xs & Hok & E). rewrite <- E. auto.
  - intros H xs Hok. destruct (bind_cover I vs' vs b Hset' H2 xs Hok) as (xs' & Hok' & E). rewrite <- E. auto.
  - intros (xs & Hok & H). destruct (bind_cover I vs' vs b Hset' H2 xs Hok) as (xs' & Hok' & E). exists xs'. split; auto. now rewrite E.
  - intros (xs' & Hok' & H). destruct (bind_cover I vs vs' b Hset H1 xs' Hok') as (xs & Hok & E). exists xs. split; auto. now rewrite E.
Qed.
(* no variable left: the body itself *)
Lemma quant_nil I b : is_vbool (eval I b) ->
  eval I (T (OForall []) [b]) = eval I b /\ eval I (T (OExists []) [b]) = eval I b.
Proof.
  intros [bb Hb]. cbn [eval]. split.
  - destruct (excluded_middle_informative _) as [H|H].
    + specialize (H [] Logic.I). cbn in H. congruence.
    + rewrite Hb. destruct bb; auto. exfalso. apply H. intros [|? ?] Hx; [exact Hb | contradiction].
  - destruct (excluded_middle_informative _) as [H|H].
    + destruct H as ([|? ?] & Hx & H); [|contradiction]. cbn in H. congruence.
    + rewrite Hb. destruct bb; auto. exfalso. apply H. exists []. split; [exact Logic.I | exact Hb].
Qed.

(* ================================================================== Int / Real typed fragment terms *)
Definition nterm (t : ty) (a : term) : Prop := okt a = true /\ tc a = Some t.
Definition arith_op (o : op) : Prop := o = OPlus \/ o = OTimes \/ o = OMinus \/ o = ODiv.
Lemma tcs_all_ty t l : Forall (fun a => tc a = Some t) l -> tcs l = Some (map (fun _ => t) l).
Proof. induction 1 as [|a r Ha Hr IH]; cbn; auto. now rewrite Ha, IH. Qed.
Lemma ttt_all_ty {A} t u (l : list A) : type_to_type (map (fun _ => t) l) t u = Some u.
Proof. unfold type_to_type. replace (forallb _ _) with true; auto. induction l; cbn; auto. now rewrite ty_eqb_refl. Qed.
Lemma ttt_none_ty {A} t t' u (l : list A) : l <> [] -> t <> t' -> type_to_type (map (fun _ => t) l) t' u = None.
Proof.
  intros Hl Ht. unfold type_to_type. destruct l as [|x r]; [congruence|]. cbn.
  destruct (ty_eqb t t') eqn:E; [apply ty_eqb_eq in E; contradiction | reflexivity].
Qed.
Lemma tc_arith_node o t l : arith_op o -> arith t -> l <> [] -> Forall (fun a => tc a = Some t) l -> tc (T o l) = Some t.
Proof.
  intros Ho Ht Hl H. rewrite tc_tcs, (tcs_all_ty _ _ H).
  assert (G : match type_to_type (map (fun _ : term => t) l) TReal TReal with
              | Some t0 => Some t0 | None => type_to_type (map (fun _ : term => t) l) TInt TInt end = Some t).
  { destruct Ht as [-> | ->].
    - rewrite ttt_none_ty by (auto; discriminate). apply ttt_all_ty.
    - now rewrite ttt_all_ty. }
  destruct Ho as [-> | [-> | [-> | ->]]]; exact G.
Qed.
Lemma nterm_args o t l : arith_op o -> nterm t (T o l) -> arith t /\ Forall (nterm t) l.
Proof.
  intros Ho [H1 H2]. pose proof (okt_args _ _ H1) as F. destruct (tc_inv _ _ _ H2) as (tys & Ht & Hr).
  assert (Har : arith t /\ Forall (fun x => x = t) tys).
  { destruct Ho as [-> | [-> | [-> | ->]]]; cbn [tc_rule] in Hr; now apply arith_rule_inv in Hr. }
  destruct Har as [Har Hall]. split; auto.
  pose proof (tcs_Forall2 _ _ Ht) as F2. clear - F F2 Hall.
  induction F2 as [|a u r tr Ha Hr IH]; constructor.
  - inversion F; subst. inversion Hall; subst. split; auto.
  - inversion F; subst. inversion Hall; subst. auto.
Qed.
Lemma nterm_node o t l : arith_op o -> arith t -> ok_node o l = true -> l <> [] -> Forall (nterm t) l -> nterm t (T o l).
Proof.
  intros Ho Ht Hn Hl F. split.
  - apply okt_intro; auto. eapply Forall_impl; [|exact F]. intros a [H _]; exact H.
  - apply tc_arith_node; auto. eapply Forall_impl; [|exact F]. intros a [_ H]; exact H.
Qed.
Lemma nterm_num I t a : wfi I -> arith t -> nterm t a -> num_ty t (eval I a).
Proof. intros Hwf Ht [H1 H2]. apply has_ty_num; auto. now apply okt_sound. Qed.
Lemma nterms_num I t l : wfi I -> arith t -> Forall (nterm t) l -> Forall (num_ty t) (map (eval I) l).
Proof. intros Hwf Ht. induction 1; cbn; constructor; auto. now apply nterm_num. Qed.
Definition rv (I : interp) (a : term) : R := realval (eval I a).
Lemma nterm_eval_eq I t a b : wfi I -> arith t -> nterm t a -> nterm t b -> rv I a = rv I b -> eval I a = eval I b.
Proof. intros Hwf Ht Ha Hb E. eapply num_ty_inj; eauto using nterm_num. Qed.
Lemma rv_times I t l : wfi I -> arith t -> l <> [] -> Forall (nterm t) l -> rv I (T OTimes l) = prodR (map (eval I) l).
Proof.
  intros Hwf Ht Hl F. unfold rv. rewrite eval_plain by reflexivity.
  apply (times_val I t); [destruct l; [congruence | discriminate] | now apply nterms_num].
Qed.
Lemma rv_plus I t l : wfi I -> arith t -> l <> [] -> Forall (nterm t) l -> rv I (T OPlus l) = sumR (map (eval I) l).
Proof.
  intros Hwf Ht Hl F. unfold rv. rewrite eval_plain by reflexivity.
  apply (plus_val I t); [destruct l; [congruence | discriminate] | now apply nterms_num].
Qed.

(* a well-formed interpretation exists: [wfi] is satisfiable *)
Definition I0 : interp :=
  {| isym := fun _ t => dval t;
     ifun := fun _ t _ => match t with TFun _ r => dval r | _ => VBool false end;
     rdiv0 := fun x => x; idiv0 := fun x => x |}.
Example wfi_I0 : wfi I0.
Proof. split; intros; cbn; now apply dval_has_ty. Qed.

(* ================================================================== per-rule soundness, stage 1 *)
Section Rules1.
Variable I : interp.
Hypothesis Hwf : wfi I.

(* what every rule must deliver: a fragment term of the same sort with the same value *)
Definition res_ok (r : term) (ty : ty) (v : value) : Prop :=
  okt r = true /\ tc r = Some ty /\ eval I r = v.
Lemma res_ok_bool r b : bterm r -> bv I r = b -> res_ok r TBool (VBool b).
Proof. intros [H1 H2] Hb. repeat split; auto. rewrite (bterm_eval I Hwf r (conj H1 H2)). now rewrite Hb. Qed.

Lemma forallb_incl_eq {A} (f : A -> bool) l l' : incl l l' -> incl l' l -> forallb f l = forallb f l'.
Proof.
  intros H1 H2. destruct (forallb f l) eqn:E; symmetry.
  - apply forallb_forall. intros x Hx. exact (forallb_In f x l (H2 x Hx) E).
  - destruct (forallb f l') eqn:E'; auto. rewrite <- E. symmetry. apply forallb_forall. intros x Hx. exact (forallb_In f x l' (H1 x Hx) E').
Qed.
Lemma existsb_incl_eq {A} (f : A -> bool) l l' : incl l l' -> incl l' l -> existsb f l = existsb f l'.
Proof.
  intros H1 H2. destruct (existsb f l) eqn:E; symmetry.
  - apply existsb_exists in E. destruct E as (x & Hx & Hf). apply existsb_exists. eauto.
  - destruct (existsb f l') eqn:E'; auto. apply existsb_exists in E'. destruct E' as (x & Hx & Hf).
    rewrite <- E. symmetry. apply existsb_exists. eauto.
Qed.
Lemma Forall_incl {A} (P : A -> Prop) l l' : incl l' l -> Forall P l -> Forall P l'.
Proof. intros Hi H. rewrite Forall_forall in *. auto. Qed.

(* the oracle's permutation does not change sort or value *)
Lemma same_order_sound r r' ty : same_upto_order r r' = true -> okt r = true -> tc r = Some ty ->
  res_ok r' ty (eval I r).
Proof.
  destruct r as [o l], r' as [o' l']. unfold same_upto_order. intros E Hok Htc.
  destruct o; try discriminate; destruct o'; try discriminate.
  - (* forall *)
    apply andb_true_iff in E. destruct E as [Ev El]. apply terms_eqb_sound in El. subst l'.
    destruct (perm_eqb_incl var_eqb var_eqb_sound _ _ Ev) as (I1 & I2).
    pose proof (okt_node _ _ Hok) as Hn. cbn in Hn. apply andb_true_iff in Hn. destruct Hn as [Hlen Hinh].
    destruct l as [|b [|? ?]]; try discriminate.
    rewrite forallb_forall in Hinh.
    assert (Hinh' : forall v, In v vs0 -> inhb (snd v) = true) by (intros v Hv; apply Hinh; auto).
    repeat split.
    + apply okt_intro; [|exact (okt_args _ _ Hok)]. cbn. apply forallb_forall. exact Hinh'.
    + rewrite tc_tcs in *. exact Htc.
    + symmetry. apply (quant_vars_equiv I vs vs0 b); auto. intros v _. split; auto.
  - (* exists *)
    apply andb_true_iff in E. destruct E as [Ev El]. apply terms_eqb_sound in El. subst l'.
    destruct (perm_eqb_incl var_eqb var_eqb_sound _ _ Ev) as (I1 & I2).
    pose proof (okt_node _ _ Hok) as Hn. cbn in Hn. apply andb_true_iff in Hn. destruct Hn as [Hlen Hinh].
    destruct l as [|b [|? ?]]; try discriminate.
    rewrite forallb_forall in Hinh.
    assert (Hinh' : forall v, In v vs0 -> inhb (snd v) = true) by (intros v Hv; apply Hinh; auto).
    repeat split.
    + apply okt_intro; [|exact (okt_args _ _ Hok)]. cbn. apply forallb_forall. exact Hinh'.
    + rewrite tc_tcs in *. exact Htc.
    + symmetry. apply (quant_vars_equiv I vs vs0 b); auto. intros v _. split; auto.
  - (* and *)
    destruct (perm_eqb_incl term_eqb term_eqb_sound _ _ E) as (I1 & I2).
    assert (ty = TBool). { destruct (tc_inv _ _ _ Htc) as (tys & _ & Hr). cbn in Hr. apply all_bool_inv in Hr. tauto. }
    subst ty. pose proof (bterm_args OAnd l (or_introl eq_refl) (conj Hok Htc)) as F.
    pose proof (Forall_incl _ _ _ I2 F) as F'.
    rewrite (bterm_eval I Hwf _ (conj Hok Htc)).
    apply res_ok_bool; [apply bterm_node; auto|].
    rewrite !bv_and by assumption. symmetry. now apply forallb_incl_eq.
  - (* or *)
    destruct (perm_eqb_incl term_eqb term_eqb_sound _ _ E) as (I1 & I2).
    assert (ty = TBool). { destruct (tc_inv _ _ _ Htc) as (tys & _ & Hr). cbn in Hr. apply all_bool_inv in Hr. tauto. }
    subst ty. pose proof (bterm_args OOr l (or_intror (or_introl eq_refl)) (conj Hok Htc)) as F.
    pose proof (Forall_incl _ _ _ I2 F) as F'.
    rewrite (bterm_eval I Hwf _ (conj Hok Htc)).
    apply res_ok_bool; [apply bterm_node; auto|].
    rewrite !bv_or by assumption. symmetry. now apply existsb_incl_eq.
  - (* times *)
    destruct (perm_eqb_incl term_eqb term_eqb_sound _ _ E) as (I1 & I2).
    pose proof (perm_eqb_perm term_eqb term_eqb_sound _ _ E) as HP.
    destruct (nterm_args OTimes ty l (or_intror (or_introl eq_refl)) (conj Hok Htc)) as [Har F].
    pose proof (Forall_incl _ _ _ I2 F) as F'.
    assert (Hl : l <> []) by (apply okt_node in Hok; cbn in Hok; destruct l; [discriminate | congruence]).
    assert (Hl' : l' <> []) by (intros ->; apply Permutation_sym, Permutation_nil in HP; contradiction).
    assert (N' : nterm ty (T OTimes l')).
    { apply nterm_node; auto; [right; left; reflexivity | destruct l'; [congruence | reflexivity]]. }
    destruct N' as [N1 N2]. repeat split; auto.
    apply (nterm_eval_eq I ty); auto; [split; auto | split; auto |].
    rewrite (rv_times I ty l'), (rv_times I ty l); auto. apply prodR_perm. apply Permutation_map. now symmetry.
Qed.
Lemma reorder_sound ora o args r ty : okt r = true -> tc r = Some ty ->
  res_ok (reorder ora o args r) ty (eval I r).
Proof.
  intros Hok Htc. unfold reorder. destruct (ora o args) as [r'|]; [|repeat split; auto].
  destruct (same_upto_order r r') eqn:E; [|repeat split; auto]. eapply same_order_sound; eauto.
Qed.
Lemma reorder_bool ora o args r : bterm r -> bterm (reorder ora o args r) /\ bv I (reorder ora o args r) = bv I r.
Proof.
  intros [H1 H2]. destruct (reorder_sound ora o args r TBool H1 H2) as (A & B & C).
  split; [split; auto|]. unfold bv. now rewrite C.
Qed.

(* ------------------------------------------------------------------ And / Or *)
Lemma same_pair_inv args a : same_pair args = Some a -> args = [a; a].
Proof.
  unfold same_pair. destruct args as [|x [|y [|? ?]]]; try discriminate.
  destruct (term_eqb x y) eqn:E; [|discriminate]. apply term_eqb_sound in E. subst. now intros [= ->].
Qed.
Lemma r_and_sound ora args : Forall bterm args ->
  bterm (r_and ora args) /\ bv I (r_and ora args) = forallb (bv I) args.
Proof.
  intros H. unfold r_and. destruct (same_pair args) as [a|] eqn:E.
  - apply same_pair_inv in E. subst. inversion H; subst. split; auto. cbn. rewrite andb_true_r. now rewrite andb_diag.
  - pose proof (and_loop_sound I Hwf args [] H (Forall_nil _)) as L.
    destruct (nary_loop is_true is_false is_and args []) as [l|].
    + destruct L as [F E2]. destruct (mk_and_sound I Hwf l F) as [B1 B2].
      destruct (reorder_bool ora OAnd args (mk_and l) B1) as [R1 R2]. split; auto. now rewrite R2, B2, E2.
    + split; [apply bterm_TBoolC|]. cbn in L. now rewrite L.
Qed.
Lemma r_or_sound ora args : Forall bterm args ->
  bterm (r_or ora args) /\ bv I (r_or ora args) = existsb (bv I) args.
Proof.
  intros H. unfold r_or. destruct (same_pair args) as [a|] eqn:E.
  - apply same_pair_inv in E. subst. inversion H; subst. split; auto. cbn. rewrite orb_false_r. now rewrite orb_diag.
  - pose proof (or_loop_sound I Hwf args [] H (Forall_nil _)) as L.
    destruct (nary_loop is_false is_true is_or args []) as [l|].
    + destruct L as [F E2]. destruct (mk_or_sound I Hwf l F) as [B1 B2].
      destruct (reorder_bool ora OOr args (mk_or l) B1) as [R1 R2]. split; auto. now rewrite R2, B2, E2.
    + split; [apply bterm_TBoolC|]. cbn in L. now rewrite L.
Qed.

(* ------------------------------------------------------------------ Iff / Implies *)
Lemma bterm_mk2 o a b : (o = OImplies \/ o = OIff) -> bterm a -> bterm b -> bterm (T o [a; b]).
Proof.
  intros Ho Ha Hb. apply bterm_node.
  - destruct Ho; subst; tauto.
  - destruct Ho; subst; reflexivity.
  - auto.
Qed.
Lemma r_iff_sound a b : bterm a -> bterm b ->
  bterm (r_iff a b) /\ bv I (r_iff a b) = Bool.eqb (bv I a) (bv I b).
Proof.
  intros Ha Hb. unfold r_iff.
  assert (Hdef : bterm (if term_eqb a b then TTrue else mk_iff a b) /\
                 bv I (if term_eqb a b then TTrue else mk_iff a b) = Bool.eqb (bv I a) (bv I b)).
  { destruct (term_eqb a b) eqn:E.
    - apply term_eqb_sound in E. subst. split; [apply bterm_TBoolC|]. cbn. now rewrite eqb_reflx.
    - split; [apply bterm_mk2; auto | reflexivity]. }
  assert (Hl : forall l, top a = OBoolC l ->
               bterm (if l then b else mk_not b) /\ bv I (if l then b else mk_not b) = Bool.eqb (bv I a) (bv I b)).
  { intros l Ea. rewrite (bterm_boolc _ _ Ha Ea), bv_TBoolC. destruct l.
    - split; auto. now destruct (bv I b).
    - destruct (mk_not_sound I b Hb) as [N1 N2]. split; [exact N1 | rewrite N2; now destruct (bv I b)]. }
  assert (Hr : forall r, top b = OBoolC r ->
               bterm (if r then a else mk_not a) /\ bv I (if r then a else mk_not a) = Bool.eqb (bv I a) (bv I b)).
  { intros r Eb. rewrite (bterm_boolc _ _ Hb Eb), bv_TBoolC. destruct r.
    - split; auto. now destruct (bv I a).
    - destruct (mk_not_sound I a Ha) as [N1 N2]. split; [exact N1 | rewrite N2; now destruct (bv I a)]. }
  assert (Hlr : forall l r, top a = OBoolC l -> top b = OBoolC r ->
               bterm (mk_bool (Bool.eqb l r)) /\ bv I (mk_bool (Bool.eqb l r)) = Bool.eqb (bv I a) (bv I b)).
  { intros l r Ea Eb. rewrite (bterm_boolc _ _ Ha Ea), (bterm_boolc _ _ Hb Eb). split; [apply bterm_TBoolC | reflexivity]. }
  destruct (top a) eqn:Ea; destruct (top b) eqn:Eb;
    first [exact Hdef | apply Hlr; reflexivity | apply Hl; reflexivity | apply Hr; reflexivity].
Qed.
Lemma r_implies_sound a b : bterm a -> bterm b ->
  bterm (r_implies a b) /\ bv I (r_implies a b) = implb (bv I a) (bv I b).
Proof.
  intros Ha Hb. unfold r_implies.
  assert (Hdef : bterm (if term_eqb a b then TTrue else mk_implies a b) /\
                 bv I (if term_eqb a b then TTrue else mk_implies a b) = implb (bv I a) (bv I b)).
  { destruct (term_eqb a b) eqn:E.
    - apply term_eqb_sound in E. subst. split; [apply bterm_TBoolC|]. cbn. now destruct (bv I b).
    - split; [apply bterm_mk2; auto | reflexivity]. }
  assert (Hl : forall l, top a = OBoolC l ->
               bterm (if l then b else TTrue) /\ bv I (if l then b else TTrue) = implb (bv I a) (bv I b)).
  { intros l Ea. rewrite (bterm_boolc _ _ Ha Ea). rewrite bv_TBoolC. destruct l; [split; auto | split; [apply bterm_TBoolC | reflexivity]]. }
  assert (Hr : forall r, top b = OBoolC r ->
               bterm (if r then TTrue else mk_not a) /\ bv I (if r then TTrue else mk_not a) = implb (bv I a) (bv I b)).
  { intros r Eb. rewrite (bterm_boolc _ _ Hb Eb). rewrite bv_TBoolC. destruct r.
    - split; [apply bterm_TBoolC|]. now destruct (bv I a).
    - destruct (mk_not_sound I a Ha) as [N1 N2]. split; [exact N1 | rewrite N2; now destruct (bv I a)]. }
  destruct (top a) eqn:Ea; try (apply Hl; reflexivity); destruct (top b) eqn:Eb; try exact Hdef; try (apply Hr; reflexivity).
Qed.
End Rules1.

(* ================================================================== Equals on constants *)
Lemma veqb_false a b : a <> b -> veqb a b = false.
Proof. intros H. destruct (veqb a b) eqn:E; auto. apply veqb_true in E. contradiction. Qed.
Lemma veqb_dec a b (c : bool) : (c = true <-> a = b) -> veqb a b = c.
Proof.
  intros H. destruct c.
  - apply veqb_true. now apply H.
  - apply veqb_false. intros E. apply H in E. discriminate.
Qed.
Lemma Q2R'_eq n1 d1 n2 d2 : (0 < d1)%Z -> (0 < d2)%Z ->
  (Q2R' n1 d1 = Q2R' n2 d2 <-> (n1 * d2 = n2 * d1)%Z).
Proof.
  intros H1 H2. unfold Q2R'.
  assert (R1 : IZR d1 <> 0%R) by (apply not_0_IZR; lia).
  assert (R2 : IZR d2 <> 0%R) by (apply not_0_IZR; lia).
  split.
  - intros E. apply eq_IZR. rewrite !mult_IZR.
    apply (f_equal (fun x => (x * IZR d1 * IZR d2)%R)) in E. field_simplify in E; auto. lra.
  - intros E. apply (f_equal IZR) in E. rewrite !mult_IZR in E. field_simplify_eq; [lra | split; assumption].
Qed.

(* ================================================================== fractions (PyPrims) as reals *)
Definition q2r (f : frac) : R := Q2R' (fst f) (snd f).
(* after Substituter_proofs.Q2R_norm *)
Lemma Q2R_norm n d : Q2R' (fst (fr_norm n d)) (snd (fr_norm n d)) = Q2R' n d.
Proof.
  unfold fr_norm. destruct (Z.eqb_spec d 0) as [->|Hd]; [reflexivity|].
  pose proof (Z.gcd_divide_l n d) as [qn Hn]. pose proof (Z.gcd_divide_r n d) as [qd Hd'].
  set (g := Z.gcd n d) in *.
  assert (Hg : g <> 0%Z). { intros E. rewrite E in Hd'. lia. }
  assert (En : (n / g = qn)%Z). { rewrite Hn at 1. now apply Z.div_mul. }
  assert (Ed : (d / g = qd)%Z). { rewrite Hd' at 1. now apply Z.div_mul. }
  cbv zeta. rewrite En, Ed.
  assert (Hqd : qd <> 0%Z). { intros E. subst qd. lia. }
  assert (R1 : IZR g <> 0%R) by (now apply not_0_IZR).
  assert (R2 : IZR qd <> 0%R) by (now apply not_0_IZR).
  unfold Q2R'. destruct (qd <? 0)%Z; cbn [fst snd]; rewrite Hn at 1; rewrite Hd' at 1.
  - rewrite !opp_IZR, !mult_IZR. field. auto.
  - rewrite !mult_IZR. field. auto.
Qed.
Lemma fr_norm_pos n d : d <> 0%Z -> (0 < snd (fr_norm n d))%Z.
Proof.
  intros Hd. unfold fr_norm. destruct (Z.eqb_spec d 0) as [->|_]; [congruence|].
  pose proof (Z.gcd_divide_r n d) as [qd Hd']. set (g := Z.gcd n d) in *.
  assert (Hg : g <> 0%Z). { intros E. rewrite E in Hd'. lia. }
  assert (Ed : (d / g = qd)%Z). { rewrite Hd' at 1. now apply Z.div_mul. }
  cbv zeta. rewrite Ed. assert (Hqd : qd <> 0%Z). { intros E. subst qd. lia. }
  destruct (Z.ltb_spec qd 0); cbn [snd]; lia.
Qed.
Lemma fr_norm_gcd n d : d <> 0%Z -> Z.gcd (fst (fr_norm n d)) (snd (fr_norm n d)) = 1%Z.
Proof.
  intros Hd. unfold fr_norm. destruct (Z.eqb_spec d 0) as [->|_]; [congruence|]. cbv zeta.
  assert (Hg : Z.gcd n d <> 0%Z). { intros E. apply Z.gcd_eq_0_r in E. congruence. }
  pose proof (Z.gcd_div_gcd n d (Z.gcd n d) Hg eq_refl) as G.
  destruct (d / Z.gcd n d <? 0)%Z; cbn [fst snd]; [now rewrite Z.gcd_opp_l, Z.gcd_opp_r | exact G].
Qed.
Lemma fr_norm_lowest n d : (0 < d)%Z -> Z.gcd n d = 1%Z -> fr_norm n d = (n, d).
Proof.
  intros D G. unfold fr_norm. rewrite (proj2 (Z.eqb_neq d 0)) by lia. cbv zeta. rewrite G, !Z.div_1_r.
  now rewrite (proj2 (Z.ltb_ge d 0)) by lia.
Qed.
(* two fractions in lowest terms with positive denominators and the same value are the same *)
Lemma lowest_terms_inj n1 d1 n2 d2 : (0 < d1)%Z -> (0 < d2)%Z -> Z.gcd n1 d1 = 1%Z -> Z.gcd n2 d2 = 1%Z ->
  (n1 * d2 = n2 * d1)%Z -> n1 = n2 /\ d1 = d2.
Proof.
  intros H1 H2 G1 G2 E.
  assert (D12 : (d1 | d2)%Z). { apply (Z.gauss d1 n1 d2); [exists n2; lia | now rewrite Z.gcd_comm]. }
  assert (D21 : (d2 | d1)%Z). { apply (Z.gauss d2 n2 d1); [exists n1; lia | now rewrite Z.gcd_comm]. }
  assert (Ed : d1 = d2). { apply Z.divide_antisym_nonneg; auto; lia. }
  subst d2. split; auto. nia.
Qed.
Lemma q2r_norm n d : q2r (fr_norm n d) = Q2R' n d.
Proof. apply Q2R_norm. Qed.
Lemma q2r_add a b : snd a <> 0%Z -> snd b <> 0%Z ->
  q2r (fr_add a b) = (q2r a + q2r b)%R /\ (0 < snd (fr_add a b))%Z.
Proof.
  intros Ha Hb. unfold fr_add. split; [|apply fr_norm_pos; lia].
  rewrite q2r_norm. unfold q2r, Q2R'. rewrite plus_IZR, !mult_IZR. field. split; now apply not_0_IZR.
Qed.
Lemma q2r_sub a b : snd a <> 0%Z -> snd b <> 0%Z ->
  q2r (fr_sub a b) = (q2r a - q2r b)%R /\ (0 < snd (fr_sub a b))%Z.
Proof.
  intros Ha Hb. unfold fr_sub. split; [|apply fr_norm_pos; lia].
  rewrite q2r_norm. unfold q2r, Q2R'. rewrite minus_IZR, !mult_IZR. field. split; now apply not_0_IZR.
Qed.
Lemma q2r_mul a b : snd a <> 0%Z -> snd b <> 0%Z ->
  q2r (fr_mul a b) = (q2r a * q2r b)%R /\ (0 < snd (fr_mul a b))%Z.
Proof.
  intros Ha Hb. unfold fr_mul. split; [|apply fr_norm_pos; lia].
  rewrite q2r_norm. unfold q2r, Q2R'. rewrite !mult_IZR. field. split; now apply not_0_IZR.
Qed.
Lemma q2r_neg a : snd a <> 0%Z -> q2r (fr_neg a) = (- q2r a)%R.
Proof. intros Ha. unfold fr_neg, q2r, Q2R'. cbn [fst snd]. rewrite opp_IZR. field. now apply not_0_IZR. Qed.
Lemma q2r_int z : q2r (z, 1%Z) = IZR z.
Proof. unfold q2r, Q2R'. cbn. field. Qed.
Lemma Rdiv_lt_cross a b c d : (0 < b)%R -> (0 < d)%R -> ((a / b < c / d)%R <-> (a * d < c * b)%R).
Proof.
  intros Hb Hd. split; intros H.
  - apply (Rmult_lt_compat_r (b * d)) in H; [|now apply Rmult_lt_0_compat].
    replace (a / b * (b * d))%R with (a * d)%R in H by (field; lra).
    replace (c / d * (b * d))%R with (c * b)%R in H by (field; lra). exact H.
  - apply (Rmult_lt_reg_r (b * d)); [now apply Rmult_lt_0_compat|].
    replace (a / b * (b * d))%R with (a * d)%R by (field; lra).
    replace (c / d * (b * d))%R with (c * b)%R by (field; lra). exact H.
Qed.
Lemma q2r_ltb a b : (0 < snd a)%Z -> (0 < snd b)%Z -> (fr_ltb a b = true <-> (q2r a < q2r b)%R).
Proof.
  intros Ha Hb. unfold fr_ltb, q2r, Q2R'. rewrite Z.ltb_lt.
  rewrite Rdiv_lt_cross by (now apply IZR_lt). rewrite <- !mult_IZR. split; [apply IZR_lt | apply lt_IZR].
Qed.
Lemma q2r_eqb a b : (0 < snd a)%Z -> (0 < snd b)%Z -> (fr_eqb a b = true <-> q2r a = q2r b).
Proof. intros Ha Hb. unfold fr_eqb, q2r. rewrite Z.eqb_eq. symmetry. now apply Q2R'_eq. Qed.
Lemma q2r_leb a b : (0 < snd a)%Z -> (0 < snd b)%Z -> (fr_leb a b = true <-> (q2r a <= q2r b)%R).
Proof.
  intros Ha Hb. split.
  - intros H. destruct (Rle_lt_dec (q2r a) (q2r b)) as [|G]; auto.
    apply (q2r_ltb b a Hb Ha) in G. unfold fr_ltb in G. unfold fr_leb in H. rewrite Z.ltb_lt in G. rewrite Z.leb_le in H. lia.
  - intros H. unfold fr_leb. rewrite Z.leb_le. destruct (Z.le_gt_cases (fst a * snd b) (fst b * snd a)) as [|G]; auto.
    assert (G' : fr_ltb b a = true) by (unfold fr_ltb; rewrite Z.ltb_lt; lia).
    apply (q2r_ltb b a Hb Ha) in G'. lra.
Qed.

Section Rules1b.
Variable I : interp.
Hypothesis Hwf : wfi I.
Notation res_ok := (res_ok I).

(* value and sort of a constant of the fragment *)
Lemma const_cases a t : okt a = true -> tc a = Some t -> is_constant a = true ->
  (exists b, a = TBoolC b /\ t = TBool) \/ (exists z, a = TIntC z /\ t = TInt) \/
  (exists n d, a = TRealC n d /\ t = TReal /\ (0 < d)%Z) \/ (exists v w, a = TBVC v w /\ t = TBV w) \/
  (exists s, a = TStrC s /\ t = TStr) \/ (exists i e, t = TArr i e /\ is_array_value a = true).
Proof.
  intros Hok Htc Hc. destruct a as [o l]. pose proof (okt_node _ _ Hok) as Hn.
  destruct o; cbn in Hc; try discriminate; try (cbn in Hn; discriminate).
  6:{ do 5 right. destruct (tc_inv _ _ _ Htc) as (tys & _ & Hr). cbn in Hr. destruct tys as [|d r]; [discriminate|].
      destruct (array_value_ok it d r true); [|discriminate]. inversion Hr. do 2 eexists. split; reflexivity. }
  all: pose proof (const_no_args _ _ _ Htc Logic.I) as ->; cbn in Htc; inversion Htc; subst.
  - right; right; left. exists num, den. cbn in Hn. apply andb_true_iff in Hn. destruct Hn as [Hn _]. apply Z.ltb_lt in Hn. repeat split; auto.
  - left. eexists. split; reflexivity.
  - right; left. eexists. split; reflexivity.
  - right; right; right; right; left. eexists. split; reflexivity.
  - right; right; right; left. do 2 eexists. split; reflexivity.
Qed.

Lemma realc_lowest n d : okt (TRealC n d) = true -> (0 < d)%Z /\ Z.gcd n d = 1%Z.
Proof. intros H. apply okt_node in H. cbn in H. apply andb_true_iff in H. destruct H as [H1 H2]. apply Z.ltb_lt in H1. apply Z.eqb_eq in H2. auto. Qed.

Lemma r_equals_sound a b ty r : okt a = true -> okt b = true -> tc (T OEquals [a; b]) = Some ty ->
  is_array_value a = false -> is_array_value b = false ->
  r_equals a b = Some r -> res_ok r ty (eval I (T OEquals [a; b])).
Proof.
  intros Oa Ob Htc Aa Ab E.
  destruct (tc_inv _ _ _ Htc) as (tys & Ht & Hr). pose proof (equals_out _ _ Hr). subst ty.
  pose proof (tcs_Forall2 _ _ Ht) as F2.
  inversion F2 as [|? ta ? ? Ha F2']; subst. inversion F2' as [|? tb ? ? Hb F2'']; subst. inversion F2''; subst.
  destruct (equals_same _ _ _ Hr) as [<- Hnb].
  rewrite eval_plain by reflexivity. cbn [map op_sem].
  unfold r_equals in E. rewrite Aa, Ab in E. cbn [negb] in E. rewrite !andb_true_r in E.
  destruct (is_constant a && is_constant b) eqn:C.
  - apply andb_true_iff in C. destruct C as [Ca Cb].
    destruct (const_cases a ta Oa Ha Ca) as [(x & -> & ->)|[(x & -> & ->)|[(n1 & d1 & -> & -> & D1)|[(v1 & w1 & -> & ->)|[(s1 & -> & ->)|(? & ? & _ & Ea)]]]]];
      [congruence| | | | |congruence];
      destruct (const_cases b _ Ob Hb Cb) as [(y & -> & Ey)|[(y & -> & Ey)|[(n2 & d2 & -> & Ey & D2)|[(v2 & w2 & -> & Ey)|[(s2 & -> & Ey)|(? & ? & Ey & _)]]]]];
      try discriminate Ey; cbn in E; inversion E; subst; (split; [reflexivity|]); (split; [reflexivity|]); cbn; f_equal; symmetry.
    + apply veqb_dec. unfold fr_eqb; cbn [fst snd]. rewrite Z.eqb_eq. split; [intros H; f_equal; lia | intros [= H]; lia].
    + apply veqb_dec. unfold fr_eqb; cbn [fst snd]. rewrite Z.eqb_eq, <- (Q2R'_eq n1 d1 n2 d2 D1 D2).
      split; [intros ->; reflexivity | intros [= H]; exact H].
    + inversion Ey; subst. apply veqb_dec. unfold fr_eqb; cbn [fst snd]. rewrite Z.eqb_eq.
      split; [intros H; f_equal; lia | intros [= H]; lia].
    + apply veqb_dec. split; [intros H; f_equal; now apply zs_eqb_eq | intros [= H]; now apply zs_eqb_eq].
  - destruct (term_eqb a b) eqn:Eq.
    + apply term_eqb_sound in Eq. subst. inversion E; subst. repeat split. cbn. now rewrite veqb_refl.
    + inversion E; subst. split; [|split].
      * apply okt_intro; [reflexivity | auto].
      * exact Htc.
      * reflexivity.
Qed.

(* ------------------------------------------------------------------ Ite *)
Lemma r_ite_sound c a b ty : okt c = true -> okt a = true -> okt b = true ->
  tc (T OIte [c; a; b]) = Some ty -> res_ok (r_ite c a b) ty (eval I (T OIte [c; a; b])).
Proof.
  intros Oc Oa Ob Htc.
  destruct (tc_inv _ _ _ Htc) as (tys & Ht & Hr). pose proof (tcs_Forall2 _ _ Ht) as F2.
  inversion F2 as [|? tc0 ? ? Hc F2']; subst. inversion F2' as [|? ta ? ? Ha F2'']; subst.
  inversion F2'' as [|? tb ? ? Hb F2''']; subst. inversion F2'''; subst.
  cbn in Hr. destruct (ty_eqb tc0 TBool && ty_eqb ta tb) eqn:E; [|discriminate]. inversion Hr; subst.
  apply andb_true_iff in E. destruct E as [E1 E2]. apply ty_eqb_eq in E1, E2. subst.
  rewrite eval_plain by reflexivity. cbn [map op_sem].
  unfold r_ite. destruct (term_eqb a b) eqn:Eq.
  - apply term_eqb_sound in Eq. subst. repeat split; auto. now destruct (vbool (eval I c)).
  - assert (Hdef : res_ok (mk_ite c a b) tb (if vbool (eval I c) then eval I a else eval I b)).
    { split; [|split]; [apply okt_intro; [reflexivity | auto] | exact Htc | reflexivity]. }
    destruct (top c) eqn:Ec; try exact Hdef.
    rewrite (bterm_boolc _ _ (conj Oc Hc) Ec). cbn. destruct b0; repeat split; auto.
Qed.

(* ------------------------------------------------------------------ quantifiers *)
Lemma r_quant_forall_sound ora vs b : okt (T (OForall vs) [b]) = true -> tc b = Some TBool ->
  res_ok (r_quant ora (OForall vs) mk_forall vs b) TBool (eval I (T (OForall vs) [b])).
Proof.
  intros Hok Hb. pose proof (okt_args _ _ Hok) as Fb. inversion Fb as [|? ? Ob _]; subst.
  pose proof (okt_node _ _ Hok) as Hn. cbn in Hn. rewrite forallb_forall in Hn.
  unfold r_quant. set (varset := filter (fun v => mem var_eqb v (fv b)) (dedupe var_eqb vs)).
  assert (Hvs : forall v, In v varset <-> In v vs /\ In v (fv b)).
  { intros v. unfold varset. rewrite filter_In, (dedupe_In var_eqb var_eqb_eq), (mem_In var_eqb var_eqb_eq). tauto. }
  assert (Hinh : forall v, In v varset -> inhb (snd v) = true) by (intros v Hv; apply Hn; now apply Hvs).
  assert (Heq : eval I (T (OForall vs) [b]) = eval I (T (OForall varset) [b])).
  { apply (quant_vars_equiv I vs varset b); auto. intros v Hv. rewrite Hvs. tauto. }
  rewrite Heq. destruct varset as [|v0 vr] eqn:Ev.
  - repeat split; auto. symmetry. apply (quant_nil I b). now apply okt_bool.
  - assert (Ok2 : okt (T (OForall (v0 :: vr)) [b]) = true).
    { apply okt_intro; auto. cbn [ok_node List.length Nat.eqb andb]. apply forallb_forall. exact Hinh. }
    assert (Tc2 : tc (T (OForall (v0 :: vr)) [b]) = Some TBool) by (rewrite tc_tcs; cbn; now rewrite Hb).
    apply (reorder_sound I Hwf ora (OForall vs) [b] _ TBool Ok2 Tc2).
Qed.
Lemma r_quant_exists_sound ora vs b : okt (T (OExists vs) [b]) = true -> tc b = Some TBool ->
  res_ok (r_quant ora (OExists vs) mk_exists vs b) TBool (eval I (T (OExists vs) [b])).
Proof.
  intros Hok Hb. pose proof (okt_args _ _ Hok) as Fb. inversion Fb as [|? ? Ob _]; subst.
  pose proof (okt_node _ _ Hok) as Hn. cbn in Hn. rewrite forallb_forall in Hn.
  unfold r_quant. set (varset := filter (fun v => mem var_eqb v (fv b)) (dedupe var_eqb vs)).
  assert (Hvs : forall v, In v varset <-> In v vs /\ In v (fv b)).
  { intros v. unfold varset. rewrite filter_In, (dedupe_In var_eqb var_eqb_eq), (mem_In var_eqb var_eqb_eq). tauto. }
  assert (Hinh : forall v, In v varset -> inhb (snd v) = true) by (intros v Hv; apply Hn; now apply Hvs).
  assert (Heq : eval I (T (OExists vs) [b]) = eval I (T (OExists varset) [b])).
  { apply (quant_vars_equiv I vs varset b); auto. intros v Hv. rewrite Hvs. tauto. }
  rewrite Heq. destruct varset as [|v0 vr] eqn:Ev.
  - repeat split; auto. symmetry. apply (quant_nil I b). now apply okt_bool.
  - assert (Ok2 : okt (T (OExists (v0 :: vr)) [b]) = true).
    { apply okt_intro; auto. cbn [ok_node List.length Nat.eqb andb]. apply forallb_forall. exact Hinh. }
    assert (Tc2 : tc (T (OExists (v0 :: vr)) [b]) = Some TBool) by (rewrite tc_tcs; cbn; now rewrite Hb).
    apply (reorder_sound I Hwf ora (OExists vs) [b] _ TBool Ok2 Tc2).
Qed.
End Rules1b.

(* ================================================================== arithmetic rules, stage 2 *)
Section Rules2.
Variable I : interp.
Hypothesis Hwf : wfi I.
Notation rvI := (rv I).

Definition sumT (l : list term) : R := sumR (map (eval I) l).
Definition prodT (l : list term) : R := prodR (map (eval I) l).
Lemma sumT_cons a l : sumT (a :: l) = (rvI a + sumT l)%R. Proof. reflexivity. Qed.
Lemma prodT_cons a l : prodT (a :: l) = (rvI a * prodT l)%R. Proof. reflexivity. Qed.
Lemma sumT_nil : sumT [] = 0%R. Proof. reflexivity. Qed.
Lemma prodT_nil : prodT [] = 1%R. Proof. reflexivity. Qed.
Lemma sumT_app l l' : sumT (l ++ l') = (sumT l + sumT l')%R.
Proof. induction l as [|a r IH]; [cbn [app]; rewrite sumT_nil; lra|]. cbn [app]. rewrite !sumT_cons, IH. lra. Qed.
Lemma prodT_app l l' : prodT (l ++ l') = (prodT l * prodT l')%R.
Proof. induction l as [|a r IH]; [cbn [app]; rewrite prodT_nil; lra|]. cbn [app]. rewrite !prodT_cons, IH. lra. Qed.
Lemma sumT_one a : sumT [a] = rvI a. Proof. rewrite sumT_cons, sumT_nil. lra. Qed.
Lemma prodT_one a : prodT [a] = rvI a. Proof. rewrite prodT_cons, prodT_nil. lra. Qed.

(* ------------------------------------------------------------------ constants *)
Lemma nterm_mk_int t z : t = TInt -> nterm t (mk_int z) /\ rvI (mk_int z) = IZR z.
Proof. intros ->. repeat split. Qed.
Lemma nterm_mk_real t f : t = TReal -> snd f <> 0%Z -> nterm t (mk_real f) /\ rvI (mk_real f) = q2r f.
Proof.
  intros -> Hf. unfold mk_real. pose proof (fr_norm_pos (fst f) (snd f) Hf) as Hp. pose proof (q2r_norm (fst f) (snd f)) as Hq.
  pose proof (fr_norm_gcd (fst f) (snd f) Hf) as Hg.
  destruct (fr_norm (fst f) (snd f)) as [n d]. cbn [fst snd] in Hp, Hg. split.
  - split; [|reflexivity]. cbn. rewrite Hg. cbn. rewrite andb_true_r. apply andb_true_iff. split; auto. now apply Z.ltb_lt.
  - exact Hq.
Qed.
Lemma const_of_type_sound t v c (Ht : arith t) : snd v <> 0%Z -> const_of_type (Some t) v = Some c -> nterm t c /\ rvI c = q2r v.
Proof.
  intros Hv E. unfold const_of_type in E. destruct Ht as [-> | ->].
  - destruct (fr_is_int v) eqn:Ei; [|discriminate]. inversion E; subst. unfold fr_is_int in Ei. apply Z.eqb_eq in Ei.
    destruct (nterm_mk_int TInt (fst v) eq_refl) as [N R]. split; auto. rewrite R. destruct v as [n d]. cbn in *. subst d. now rewrite q2r_int.
  - inversion E; subst. now apply nterm_mk_real.
Qed.
Lemma num_value_sound t x (Ht : arith t) : nterm t x -> is_constant x = true ->
  exists v, num_value x = Some v /\ rvI x = q2r v /\ (0 < snd v)%Z.
Proof.
  intros [Ox Tx] Hc.
  destruct (const_cases x t Ox Tx Hc) as [(b & -> & E)|[(z & -> & E)|[(n & d & -> & E & D)|[(v & w & -> & E)|[(s0 & -> & E)|(? & ? & E & _)]]]]];
    destruct Ht as [-> | ->]; try discriminate E.
  - exists (z, 1%Z). cbn. repeat split; try lia. unfold rv. cbn. symmetry. apply q2r_int.
  - exists (n, d). cbn. repeat split; auto.
Qed.
Lemma is_zero_rv t x : nterm t x -> is_zero x = true -> rvI x = 0%R.
Proof.
  intros [Ox Tx]. destruct x as [o l]. unfold is_zero. cbn [top]. destruct o; try discriminate; intros E; apply Z.eqb_eq in E; subst;
    pose proof (const_no_args _ _ _ Tx Logic.I) as ->; cbn.
  - unfold Q2R'. lra.
  - reflexivity.
Qed.
Lemma is_one_rv t x : nterm t x -> is_one x = true -> rvI x = 1%R.
Proof.
  intros [Ox Tx]. destruct x as [o l]. unfold is_one. cbn [top]. destruct o; try discriminate; intros E;
    pose proof (const_no_args _ _ _ Tx Logic.I) as ->; cbn.
  - apply andb_true_iff in E. destruct E as [E1 E2]. apply Z.eqb_eq in E1, E2. subst. unfold Q2R'. lra.
  - apply Z.eqb_eq in E. now subst.
Qed.
Lemma not_zero_rv t x (Ht : arith t) : nterm t x -> is_constant x = true -> is_zero x = false -> rvI x <> 0%R.
Proof.
  intros Nx Hc Hz. destruct (num_value_sound t x Ht Nx Hc) as (v & Hv & Rv & Dv).
  destruct x as [o l]. unfold is_zero in Hz. unfold num_value in Hv. cbn [top] in *.
  destruct o; try discriminate; inversion Hv; subst; rewrite Rv; unfold q2r, Q2R'; cbn [fst snd] in *.
  - apply Z.eqb_neq in Hz. intros E. apply Hz. apply eq_IZR.
    assert (Hd : IZR den <> 0%R) by (apply not_0_IZR; lia).
    apply (Rmult_eq_compat_r (IZR den)) in E. unfold Rdiv in E.
    rewrite Rmult_assoc, Rinv_l, Rmult_1_r, Rmult_0_l in E by exact Hd. exact E.
  - apply Z.eqb_neq in Hz. intros E. apply Hz. apply eq_IZR. lra.
Qed.

(* ------------------------------------------------------------------ Plus / Times / Minus nodes *)
Lemma mk_plus_sound t l r (Ht : arith t) : Forall (nterm t) l -> mk_plus l = Some r -> nterm t r /\ rvI r = sumT l.
Proof.
  intros F E. unfold mk_plus in E. destruct l as [|x [|y l']]; inversion E; subst.
  - inversion F; subst. split; auto. now rewrite sumT_one.
  - split; [apply nterm_node; auto; [left; reflexivity | discriminate] | apply (rv_plus I t); auto; discriminate].
Qed.
Lemma mk_times_sound t l r (Ht : arith t) : Forall (nterm t) l -> mk_times l = Some r -> nterm t r /\ rvI r = prodT l.
Proof.
  intros F E. unfold mk_times in E. destruct l as [|x [|y l']]; inversion E; subst.
  - inversion F; subst. split; auto. now rewrite prodT_one.
  - split; [apply nterm_node; auto; [right; left; reflexivity | discriminate] | apply (rv_times I t); auto; discriminate].
Qed.
Lemma rv_minus t a b (Ht : arith t) : nterm t a -> nterm t b -> nterm t (T OMinus [a; b]) /\ rvI (T OMinus [a; b]) = (rvI a - rvI b)%R.
Proof.
  intros Na Nb. split.
  - apply nterm_node; auto; [right; right; left; reflexivity | discriminate].
  - unfold rv. rewrite eval_plain by reflexivity. cbn [map op_sem].
    apply (vsub_num t); now apply nterm_num.
Qed.
End Rules2.

(* ------------------------------------------------------------------ Times *)
Section Rules2b.
Variable I : interp.
Hypothesis Hwf : wfi I.
Notation rvI := (rv I).
Notation prodT := (prodT I).
Notation sumT := (sumT I).

(* P is the product of the factors processed so far *)
Definition tinv (t : ty) (st : tstate) (P : R) : Prop :=
  Forall (nterm t) (t_args st) /\ (0 < snd (cmul st))%Z /\
  (tzero st = true -> P = 0%R) /\
  (tzero st = false -> terr st = false -> P = (prodT (t_args st) * q2r (cmul st))%R).

Lemma times_walk_sound t (Ht : arith t) : forall x st P, nterm t x -> tinv t st P ->
  tinv t (times_walk x st) (P * rvI x)%R.
Proof.
  induction x as [o xs IH] using term_ind'. intros st P Nx (F & D & Z0 & Z1).
  cbn [times_walk]. destruct (is_constant (T o xs)) eqn:Hc.
  - destruct (is_zero (T o xs)) eqn:Hz.
    + repeat split; cbn; auto; try discriminate. intros _. rewrite (is_zero_rv I t _ Nx Hz). lra.
    + destruct (num_value_sound I t _ Ht Nx Hc) as (v & Hv & Rv & Dv). rewrite Hv.
      destruct (q2r_mul (cmul st) v) as [M1 M2]; try lia.
      repeat split; cbn [t_args cmul tzero terr]; auto.
      * intros Hz0. rewrite (Z0 Hz0). lra.
      * intros Hz0 He. rewrite (Z1 Hz0 He), M1, Rv. lra.
  - destruct o; try (repeat split; cbn [t_args cmul tzero terr]; auto;
                     [apply Forall_app; auto | intros Hz0; rewrite (Z0 Hz0); lra
                     | intros Hz0 He; rewrite (Z1 Hz0 He), prodT_app, prodT_one; lra]; fail).
    (* Times: its factors, last to first *)
    destruct (nterm_args OTimes t xs (or_intror (or_introl eq_refl)) Nx) as [_ Fx].
    assert (Hl : xs <> []) by (destruct Nx as [Ox _]; apply okt_node in Ox; cbn in Ox; destruct xs; [discriminate | congruence]).
    rewrite (rv_times I t xs Hwf Ht Hl Fx). change (prodR (map (eval I) xs)) with (prodT xs).
    clear Nx Hl Hc. revert st P F D Z0 Z1. induction xs as [|y r IHr]; intros st P F D Z0 Z1.
    + rewrite prodT_nil, Rmult_1_r. unfold tinv. auto.
    + rewrite prodT_cons. inversion IH as [|? ? IHy IH']; subst. inversion Fx as [|? ? Ny Fr]; subst.
      replace (P * (rvI y * prodT r))%R with (P * prodT r * rvI y)%R by lra.
      apply IHy; [exact Ny | apply IHr; auto].
Qed.

Lemma r_times_sound ora t (Ht : arith t) args r : args <> [] -> Forall (nterm t) args ->
  r_times ora args = Some r -> nterm t r /\ rvI r = prodT args.
Proof.
  intros Hne F E. unfold r_times in E. destruct args as [|a0 rest]; [congruence|].
  assert (Hty : tc a0 = Some t) by (inversion F as [|? ? [_ H] _]; exact H). rewrite Hty in E.
  set (st := fold_right times_walk {| t_args := []; cmul := (1%Z, 1%Z); tzero := false; terr := false |} (a0 :: rest)) in *.
  assert (Hinv : tinv t st (prodT (a0 :: rest))).
  { subst st. generalize (a0 :: rest) F. induction l as [|x l IH]; intros Fl.
    - rewrite prodT_nil. cbn [fold_right]. repeat split; cbn [t_args cmul tzero terr snd]; auto; try lia; try discriminate.
      intros _ _. rewrite prodT_nil. unfold q2r, Q2R'. cbn. lra.
    - rewrite prodT_cons. cbn [fold_right]. inversion Fl; subst.
      replace (rvI x * prodT l)%R with (prodT l * rvI x)%R by lra. apply times_walk_sound; auto. }
  clearbody st. destruct Hinv as (Fa & D & Z0 & Z1).
  destruct (tzero st) eqn:Hz.
  - assert (D0 : snd (0%Z, 1%Z) <> 0%Z) by (cbn; lia).
    destruct (const_of_type_sound I t (0%Z, 1%Z) r Ht D0 E) as [N R]. split; auto.
    rewrite R, (Z0 eq_refl). unfold q2r, Q2R'. cbn. lra.
  - destruct (terr st) eqn:He; [discriminate|]. unfold Simplifier.bind in E.
    destruct (const_of_type (Some t) (cmul st)) as [c|] eqn:Ec; [|discriminate].
    assert (Dc : snd (cmul st) <> 0%Z) by lia.
    destruct (const_of_type_sound I t (cmul st) c Ht Dc Ec) as [Nc Rc].
    specialize (Z1 eq_refl eq_refl).
    destruct (is_zero c) eqn:Hzc.
    + inversion E; subst. split; auto. rewrite Z1. pose proof (is_zero_rv I t _ Nc Hzc) as H0. rewrite <- Rc, H0. lra.
    + destruct (t_args st) as [|t1 tr] eqn:Et.
      * inversion E; subst. split; auto. rewrite Z1, prodT_nil, Rc. lra.
      * destruct (mk_times (if is_one c then t1 :: tr else (t1 :: tr) ++ [c])) as [m|] eqn:Em; [|discriminate].
        inversion E; subst.
        assert (Fna : Forall (nterm t) (if is_one c then t1 :: tr else (t1 :: tr) ++ [c])).
        { destruct (is_one c); auto. apply Forall_app; auto. }
        destruct (mk_times_sound I Hwf t _ m Ht Fna Em) as [Nm Rm].
        destruct Nm as [Om Tm]. destruct (reorder_sound I Hwf ora OTimes (a0 :: rest) m t Om Tm) as (R1 & R2 & R3).
        split; [split; auto|]. unfold rv. rewrite R3. fold (rv I m). rewrite Rm, Z1.
        destruct (is_one c) eqn:H1.
        -- rewrite <- Rc, (is_one_rv I t _ Nc H1). lra.
        -- rewrite prodT_app, prodT_one, Rc. lra.
Qed.
End Rules2b.

(* ------------------------------------------------------------------ Plus *)
Section Rules2c.
Variable I : interp.
Hypothesis Hwf : wfi I.
Notation rvI := (rv I).
Notation prodT := (prodT I).
Notation sumT := (sumT I).

Definition pinv (t : ty) (st : pstate) : Prop :=
  Forall (nterm t) (to_sum st) /\ Forall (nterm t) (to_sub st) /\ (0 < snd (cadd st))%Z.
Definition pval (st : pstate) : R := (sumT (to_sum st) - sumT (to_sub st) + q2r (cadd st))%R.

(* errors are sticky *)
Lemma perr_mono ttype : forall x st, perr (plus_walk ttype x st) = false -> perr st = false.
Proof.
  induction x as [o xs IH] using term_ind'. intros st H. cbn [plus_walk] in H.
  destruct (is_constant (T o xs)).
  { destruct (num_value (T o xs)); [exact H | discriminate]. }
  destruct o; try exact H.
  - revert st H. induction xs as [|y r IHr]; intros st H; auto.
    apply IHr; [exact (Forall_inv_tail IH)|]. exact (Forall_inv IH _ H).
  - destruct xs as [|a [|b r]]; try discriminate; exact H.
  - destruct (last_opt xs) as [c|]; [|exact H]. destruct (is_constant c); [|exact H].
    destruct (num_value c) as [cv|]; [|discriminate]. destruct (fr_ltb cv (0%Z, 1%Z)); [|exact H].
    destruct (if fr_eqb cv ((-1)%Z, 1%Z) then Some (removelast xs)
              else match const_of_type ttype (fr_neg cv) with Some c' => Some (removelast xs ++ [c']) | None => None end) as [na|];
      [|discriminate].
    destruct (mk_times na); [exact H | discriminate].
Qed.

Lemma last_opt_app (xs : list term) c : last_opt xs = Some c -> xs = removelast xs ++ [c].
Proof.
  unfold last_opt. destruct xs as [|x r]; [discriminate|]. intros E.
  assert (E' : last (x :: r) TTrue = c) by congruence. rewrite <- E'.
  apply (app_removelast_last TTrue). discriminate.
Qed.

Lemma plus_walk_sound t (Ht : arith t) : forall x st, nterm t x -> pinv t st ->
  perr (plus_walk (Some t) x st) = false ->
  pinv t (plus_walk (Some t) x st) /\ pval (plus_walk (Some t) x st) = (pval st + rvI x)%R.
Proof.
  induction x as [o xs IH] using term_ind'. intros st Nx (F1 & F2 & D) Herr.
  assert (Hsum : pinv t (p_sum st (T o xs)) /\ pval (p_sum st (T o xs)) = (pval st + rvI (T o xs))%R).
  { split; [repeat split; cbn; auto; apply Forall_app; auto|]. unfold pval. cbn [to_sum to_sub cadd p_sum].
    rewrite sumT_app, sumT_one. lra. }
  cbn [plus_walk] in *. destruct (is_constant (T o xs)) eqn:Hc.
  - destruct (num_value_sound I t _ Ht Nx Hc) as (v & Hv & Rv & Dv). rewrite Hv in *.
    destruct (q2r_add (cadd st) v) as [A1 A2]; try lia.
    split; [repeat split; cbn; auto|]. unfold pval. cbn [to_sum to_sub cadd]. rewrite A1, Rv. lra.
  - destruct o; try exact Hsum.
    + (* Plus *)
      destruct (nterm_args OPlus t xs (or_introl eq_refl) Nx) as [_ Fx].
      assert (Hl : xs <> []) by (destruct Nx as [Ox _]; apply okt_node in Ox; cbn in Ox; destruct xs; [discriminate | congruence]).
      rewrite (rv_plus I t xs Hwf Ht Hl Fx). change (sumR (map (eval I) xs)) with (sumT xs).
      clear Nx Hl Hc Hsum. revert Herr. induction xs as [|y r IHr]; intros Herr.
      * rewrite sumT_nil, Rplus_0_r. split; [repeat split; auto | reflexivity].
      * inversion IH as [|? ? IHy IH']; subst. inversion Fx as [|? ? Ny Fr]; subst.
        pose proof (perr_mono (Some t) y _ Herr) as Herr'.
        destruct (IHr IH' Fr Herr') as [P1 P2].
        destruct (IHy _ Ny P1 Herr) as [Q1 Q2]. split; auto. rewrite Q2, P2, sumT_cons. lra.
    + (* Minus *)
      destruct (nterm_args OMinus t xs (or_intror (or_intror (or_introl eq_refl))) Nx) as [_ Fx].
      destruct xs as [|a [|b r]]; try discriminate.
      inversion Fx as [|? ? Na Fx']; subst. inversion Fx' as [|? ? Nb Fr]; subst.
      assert (r = []) by (destruct Nx as [Ox _]; apply okt_node in Ox; cbn in Ox; destruct r; [auto | discriminate]). subst r.
      destruct (rv_minus I Hwf t a b Ht Na Nb) as [_ Rm].
      split; [repeat split; cbn; auto; apply Forall_app; auto|]. unfold pval. cbn [to_sum to_sub cadd p_sum p_sub].
      rewrite !sumT_app, !sumT_one, Rm. lra.
    + (* Times *)
      destruct (last_opt xs) as [c|] eqn:El; [|exact Hsum].
      destruct (is_constant c) eqn:Hcc; [|exact Hsum].
      destruct (nterm_args OTimes t xs (or_intror (or_introl eq_refl)) Nx) as [_ Fx].
      pose proof (last_opt_app xs c El) as Exs.
      assert (Frl : Forall (nterm t) (removelast xs) /\ nterm t c).
      { rewrite Exs in Fx. apply Forall_app in Fx. destruct Fx as [A B]. inversion B; subst. auto. }
      destruct Frl as [Frl Nc].
      destruct (num_value_sound I t c Ht Nc Hcc) as (cv & Hv & Rv & Dv). rewrite Hv in *.
      destruct (fr_ltb cv (0%Z, 1%Z)) eqn:Hneg; [|exact Hsum].
      assert (Hl : xs <> []) by (intros ->; discriminate).
      assert (Rx : rvI (T OTimes xs) = (prodT (removelast xs) * q2r cv)%R).
      { rewrite (rv_times I t xs Hwf Ht Hl Fx). change (prodR (map (eval I) xs)) with (prodT xs).
        rewrite Exs at 1. rewrite prodT_app, prodT_one, Rv. reflexivity. }
      destruct (fr_eqb cv ((-1)%Z, 1%Z)) eqn:Hm1.
      * apply (q2r_eqb cv ((-1)%Z, 1%Z)) in Hm1; [|lia|cbn; lia]. rewrite q2r_int in Hm1.
        destruct (mk_times (removelast xs)) as [nt|] eqn:Em; [|discriminate].
        destruct (mk_times_sound I Hwf t _ nt Ht Frl Em) as [Nn Rn].
        split; [repeat split; cbn; auto; apply Forall_app; auto|]. unfold pval. cbn [to_sum to_sub cadd p_sub].
        rewrite sumT_app, sumT_one, Rn, Rx, Hm1. lra.
      * destruct (const_of_type (Some t) (fr_neg cv)) as [c'|] eqn:Ec; [|discriminate].
        assert (Dn : snd (fr_neg cv) <> 0%Z) by (cbn; lia).
        destruct (const_of_type_sound I t _ c' Ht Dn Ec) as [Nc' Rc']. rewrite q2r_neg in Rc' by lia.
        destruct (mk_times (removelast xs ++ [c'])) as [nt|] eqn:Em; [|discriminate].
        assert (Fna : Forall (nterm t) (removelast xs ++ [c'])) by (apply Forall_app; auto).
        destruct (mk_times_sound I Hwf t _ nt Ht Fna Em) as [Nn Rn].
        split; [repeat split; cbn; auto; apply Forall_app; auto|]. unfold pval. cbn [to_sum to_sub cadd p_sub].
        rewrite sumT_app, sumT_one, Rn, prodT_app, prodT_one, Rc', Rx. lra.
Qed.

Lemma r_plus_sound t (Ht : arith t) args r : args <> [] -> Forall (nterm t) args ->
  r_plus args = Some r -> nterm t r /\ rvI r = sumT args.
Proof.
  intros Hne F E. unfold r_plus in E. destruct args as [|a0 rest]; [congruence|].
  assert (Hty : tc a0 = Some t) by (inversion F as [|? ? [_ H] _]; exact H). rewrite Hty in E.
  set (init := {| to_sum := []; to_sub := []; cadd := (0%Z, 1%Z); perr := false |}) in *.
  set (st := fold_right (plus_walk (Some t)) init (a0 :: rest)) in *.
  destruct (perr st) eqn:Herr; [discriminate|].
  assert (Hinv : pinv t st /\ pval st = sumT (a0 :: rest)).
  { subst st. revert Herr. generalize (a0 :: rest) F. induction l as [|x l IH]; intros Fl Herr.
    - rewrite sumT_nil. cbn [fold_right]. split; [repeat split; cbn; auto; lia|].
      unfold pval, init. cbn [to_sum to_sub cadd]. rewrite sumT_nil. unfold q2r, Q2R'. cbn. lra.
    - rewrite sumT_cons. cbn [fold_right] in *. inversion Fl; subst.
      pose proof (perr_mono _ _ _ Herr) as Herr'. destruct (IH H2 Herr') as [P1 P2].
      destruct (plus_walk_sound t Ht x _ H1 P1 Herr) as [Q1 Q2]. split; auto. rewrite Q2, P2. lra. }
  clearbody st. destruct Hinv as ((F1 & F2 & D) & Hv). unfold pval in Hv.
  unfold Simplifier.bind in E.
  destruct (const_of_type (Some t) (cadd st)) as [c|] eqn:Ec; [|discriminate].
  assert (Dc : snd (cadd st) <> 0%Z) by lia.
  destruct (const_of_type_sound I t (cadd st) c Ht Dc Ec) as [Nc Rc].
  assert (Hts : Forall (nterm t) (if is_zero c then to_sum st else to_sum st ++ [c]) /\
                sumT (if is_zero c then to_sum st else to_sum st ++ [c]) = (sumT (to_sum st) + q2r (cadd st))%R).
  { destruct (is_zero c) eqn:Hz.
    - split; auto. rewrite <- Rc, (is_zero_rv I t _ Nc Hz). lra.
    - split; [apply Forall_app; auto|]. rewrite sumT_app, sumT_one, Rc. lra. }
  cbv zeta in E. remember (if is_zero c then to_sum st else to_sum st ++ [c]) as ts eqn:Ets0. clear Ets0.
  destruct Hts as [Fts Sts].
  destruct (to_sum st) as [|s1 sr] eqn:Es; destruct (to_sub st) as [|b1 br] eqn:Eb.
  - inversion E; subst. split; auto. rewrite Rc, <- Hv, !sumT_nil. lra.
  - destruct (mk_plus (b1 :: br)) as [sb|] eqn:Esb; [|discriminate].
    destruct (mk_plus_sound I Hwf t _ sb Ht F2 Esb) as [Nsb Rsb].
    destruct ts as [|t1 tr] eqn:Ets.
    + destruct (const_of_type (Some t) ((-1)%Z, 1%Z)) as [m1|] eqn:Em; [|discriminate].
      assert (D1 : snd ((-1)%Z, 1%Z) <> 0%Z) by (cbn; lia).
      destruct (const_of_type_sound I t _ m1 Ht D1 Em) as [Nm Rm]. rewrite q2r_int in Rm.
      assert (Fm : Forall (nterm t) [m1; sb]) by (constructor; [exact Nm | constructor; [exact Nsb | constructor]]).
      destruct (mk_times_sound I Hwf t _ r Ht Fm E) as [Nr Rr]. split; auto.
      rewrite Rr, prodT_cons, prodT_one, Rm, Rsb, <- Hv. rewrite sumT_nil in Sts. rewrite !sumT_nil in *. lra.
    + destruct (mk_plus (t1 :: tr)) as [res|] eqn:Ep; [|discriminate]. inversion E; subst.
      destruct (mk_plus_sound I Hwf t _ res Ht Fts Ep) as [Nres Rres].
      destruct (rv_minus I Hwf t res sb Ht Nres Nsb) as [Nmin Rmin]. split; auto.
      unfold mk_minus. rewrite Rmin, Rres, Rsb, Sts, <- Hv. rewrite !sumT_nil. lra.
  - destruct (mk_plus_sound I Hwf t _ r Ht Fts E) as [Nr Rr]. split; auto.
    rewrite Rr, Sts, <- Hv. rewrite !sumT_nil. lra.
  - destruct (mk_plus (b1 :: br)) as [sb|] eqn:Esb; [|discriminate].
    destruct (mk_plus_sound I Hwf t _ sb Ht F2 Esb) as [Nsb Rsb].
    destruct ts as [|t1 tr] eqn:Ets.
    + destruct (const_of_type (Some t) ((-1)%Z, 1%Z)) as [m1|] eqn:Em; [|discriminate].
      assert (D1 : snd ((-1)%Z, 1%Z) <> 0%Z) by (cbn; lia).
      destruct (const_of_type_sound I t _ m1 Ht D1 Em) as [Nm Rm]. rewrite q2r_int in Rm.
      assert (Fm : Forall (nterm t) [m1; sb]) by (constructor; [exact Nm | constructor; [exact Nsb | constructor]]).
      destruct (mk_times_sound I Hwf t _ r Ht Fm E) as [Nr Rr]. split; auto.
      rewrite Rr, prodT_cons, prodT_one, Rm, Rsb, <- Hv. rewrite sumT_nil in Sts. lra.
    + destruct (mk_plus (t1 :: tr)) as [res|] eqn:Ep; [|discriminate]. inversion E; subst.
      destruct (mk_plus_sound I Hwf t _ res Ht Fts Ep) as [Nres Rres].
      destruct (rv_minus I Hwf t res sb Ht Nres Nsb) as [Nmin Rmin]. split; auto.
      unfold mk_minus. rewrite Rmin, Rres, Rsb, Sts, <- Hv. lra.
Qed.
End Rules2c.

(* ------------------------------------------------------------------ Minus, LE, LT, ToReal, Div *)
Definition rleb (x y : R) : bool := if Rle_dec x y then true else false.
Definition rltb (x y : R) : bool := if Rlt_dec x y then true else false.
Lemma vle_num u a b : num_ty u a -> num_ty u b -> vle a b = VBool (rleb (realval a) (realval b)).
Proof.
  destruct u; cbn; try contradiction; intros [x ->] [y ->]; cbn; f_equal; unfold rleb; auto.
  destruct (Rle_dec (IZR x) (IZR y)) as [H|H]; [apply Z.leb_le; now apply le_IZR|].
  apply Z.leb_gt. destruct (Z.le_gt_cases x y) as [G|G]; [exfalso; apply H; now apply IZR_le | lia].
Qed.
Lemma vlt_num u a b : num_ty u a -> num_ty u b -> vlt a b = VBool (rltb (realval a) (realval b)).
Proof.
  destruct u; cbn; try contradiction; intros [x ->] [y ->]; cbn; f_equal; unfold rltb; auto.
  destruct (Rlt_dec (IZR x) (IZR y)) as [H|H]; [apply Z.ltb_lt; now apply lt_IZR|].
  apply Z.ltb_ge. destruct (Z.lt_ge_cases x y) as [G|G]; [exfalso; apply H; now apply IZR_lt | lia].
Qed.

Section Rules2d.
Variable I : interp.
Hypothesis Hwf : wfi I.
Notation rvI := (rv I).

Lemma nterm_const_shape t x : nterm t x -> is_constant x = true -> arith t ->
  (t = TInt /\ exists z, x = TIntC z) \/ (t = TReal /\ exists n d, x = TRealC n d /\ (0 < d)%Z).
Proof.
  intros [Ox Tx] Hc Ht.
  destruct (const_cases x t Ox Tx Hc) as [(b & -> & E)|[(z & -> & E)|[(n & d & -> & E & D)|[(v & w & -> & E)|[(s0 & -> & E)|(? & ? & E & _)]]]]];
    destruct Ht as [-> | ->]; try discriminate E; [left | right]; split; eauto.
Qed.

Lemma r_minus_sound t (Ht : arith t) a b r : nterm t a -> nterm t b -> r_minus a b = Some r ->
  nterm t r /\ rvI r = (rvI a - rvI b)%R.
Proof.
  intros Na Nb E.
  assert (Hdef : (if is_constant b && is_zero b then Some a
                  else if term_eqb a b then match tc a with Some TReal => Some (mk_real (0%Z, 1%Z)) | Some _ => Some (mk_int 0) | None => None end
                       else Some (mk_minus a b)) = Some r -> nterm t r /\ rvI r = (rvI a - rvI b)%R).
  { clear E. intros E. destruct (is_constant b && is_zero b) eqn:C.
    - apply andb_true_iff in C. destruct C as [_ Hz]. inversion E; subst. split; auto. rewrite (is_zero_rv I t _ Nb Hz). lra.
    - destruct (term_eqb a b) eqn:Eq.
      + apply term_eqb_sound in Eq. subst b. destruct Na as [Oa Ta]. rewrite Ta in E.
        destruct Ht as [-> | ->]; inversion E; subst.
        * destruct (nterm_mk_int I TInt 0 eq_refl) as [N R]. split; auto. rewrite R. lra.
        * assert (D0 : snd (0%Z, 1%Z) <> 0%Z) by (cbn; lia).
          destruct (nterm_mk_real I TReal (0%Z, 1%Z) eq_refl D0) as [N R]. split; auto. rewrite R, q2r_int. lra.
      + inversion E; subst. unfold mk_minus. now apply rv_minus. }
  destruct (is_constant a && is_constant b) eqn:C.
  - apply andb_true_iff in C. destruct C as [Ca Cb].
    destruct (nterm_const_shape t a Na Ca Ht) as [[-> (z1 & ->)]|[-> (n1 & d1 & -> & D1)]].
    + destruct (nterm_const_shape TInt b Nb Cb Ht) as [[_ (z2 & ->)]|[? _]]; [|discriminate].
      cbn in E. inversion E; subst.
      destruct (nterm_mk_int I TInt (z1 - z2) eq_refl) as [N R]. split; auto. rewrite R. unfold rv. cbn. now rewrite minus_IZR.
    + destruct (nterm_const_shape TReal b Nb Cb Ht) as [[? _]|[_ (n2 & d2 & -> & D2)]]; [discriminate|].
      cbn [r_minus top TRealC] in E. inversion E; subst.
      destruct (q2r_sub (n1, d1) (n2, d2)) as [S1 S2]; try (cbn; lia).
      assert (Ds : snd (fr_sub (n1, d1) (n2, d2)) <> 0%Z) by lia.
      destruct (nterm_mk_real I TReal _ eq_refl Ds) as [N R]. split; auto. rewrite R, S1. reflexivity.
  - apply Hdef. rewrite <- E. unfold r_minus.
    destruct a as [oa la], b as [ob lb]. cbn [top].
    destruct oa; try reflexivity; destruct ob; try reflexivity; cbn in C; discriminate.
Qed.

(* the two sides of a comparison are terms of one arithmetic sort *)
Lemma rel_args o a b ty : (o = OLe \/ o = OLt) -> okt (T o [a; b]) = true -> tc (T o [a; b]) = Some ty ->
  ty = TBool /\ exists u, arith u /\ nterm u a /\ nterm u b.
Proof.
  intros Ho Hok Htc. pose proof (okt_args _ _ Hok) as F. destruct (tc_inv _ _ _ Htc) as (tys & Ht & Hr).
  assert (G : ty = TBool /\ exists u, arith u /\ Forall (fun x => x = u) tys).
  { destruct Ho as [-> | ->]; cbn [tc_rule] in Hr; now apply rel_rule_inv in Hr. }
  destruct G as [-> (u & Hu & Hall)]. split; auto. exists u. split; auto.
  pose proof (tcs_Forall2 _ _ Ht) as F2.
  inversion F2 as [|? ta ? ? Ha F2']; subst. inversion F2' as [|? tb ? ? Hb F2'']; subst. inversion F2''; subst.
  inversion Hall as [|? ? E1 Hall']; subst. inversion Hall' as [|? ? E2 ?]; subst.
  inversion F as [|? ? Oa F']; subst. inversion F' as [|? ? Ob ?]; subst. repeat split; auto.
Qed.
Lemma bv_le u a b : arith u -> nterm u a -> nterm u b -> bv I (T OLe [a; b]) = rleb (rvI a) (rvI b).
Proof.
  intros Hu Na Nb. unfold bv. rewrite eval_plain by reflexivity. cbn [map op_sem].
  now rewrite (vle_num u) by (now apply nterm_num).
Qed.
Lemma bv_lt u a b : arith u -> nterm u a -> nterm u b -> bv I (T OLt [a; b]) = rltb (rvI a) (rvI b).
Proof.
  intros Hu Na Nb. unfold bv. rewrite eval_plain by reflexivity. cbn [map op_sem].
  now rewrite (vlt_num u) by (now apply nterm_num).
Qed.
Lemma bterm_rel o u a b : (o = OLe \/ o = OLt) -> arith u -> nterm u a -> nterm u b -> bterm (T o [a; b]).
Proof.
  intros Ho Hu [Oa Ta] [Ob Tb]. split.
  - apply okt_intro; [destruct Ho as [-> | ->]; reflexivity | repeat constructor; auto].
  - rewrite tc_tcs. cbn. rewrite Ta, Tb. destruct Ho as [-> | ->]; destruct Hu as [-> | ->]; reflexivity.
Qed.
Lemma num_cmp_sound u (f : frac -> frac -> bool) (g : R -> R -> bool) a b r : arith u -> nterm u a -> nterm u b ->
  is_constant a = true -> is_constant b = true ->
  (forall x y, (0 < snd x)%Z -> (0 < snd y)%Z -> f x y = g (q2r x) (q2r y)) ->
  num_cmp f a b = Some r -> bterm r /\ bv I r = g (rvI a) (rvI b).
Proof.
  intros Hu Na Nb Ca Cb Hfg E.
  destruct (num_value_sound I u a Hu Na Ca) as (va & Hva & Rva & Dva).
  destruct (num_value_sound I u b Hu Nb Cb) as (vb & Hvb & Rvb & Dvb).
  unfold num_cmp in E.
  assert (Ea : constant_value a = Some (PNum va)).
  { destruct a as [o l]. unfold num_value in Hva. unfold constant_value. cbn [top] in *. destruct o; try discriminate; inversion Hva; reflexivity. }
  assert (Eb : constant_value b = Some (PNum vb)).
  { destruct b as [o l]. unfold num_value in Hvb. unfold constant_value. cbn [top] in *. destruct o; try discriminate; inversion Hvb; reflexivity. }
  rewrite Ea, Eb in E. inversion E; subst. split; [apply bterm_TBoolC|]. rewrite bv_TBoolC, Rva, Rvb. now apply Hfg.
Qed.
Lemma fr_leb_rleb x y : (0 < snd x)%Z -> (0 < snd y)%Z -> fr_leb x y = rleb (q2r x) (q2r y).
Proof.
  intros Hx Hy. unfold rleb. destruct (Rle_dec (q2r x) (q2r y)) as [H|H].
  - now apply q2r_leb.
  - destruct (fr_leb x y) eqn:E; auto. apply q2r_leb in E; auto. contradiction.
Qed.
Lemma fr_ltb_rltb x y : (0 < snd x)%Z -> (0 < snd y)%Z -> fr_ltb x y = rltb (q2r x) (q2r y).
Proof.
  intros Hx Hy. unfold rltb. destruct (Rlt_dec (q2r x) (q2r y)) as [H|H].
  - now apply q2r_ltb.
  - destruct (fr_ltb x y) eqn:E; auto. apply q2r_ltb in E; auto. contradiction.
Qed.

Lemma r_le_sound u (Hu : arith u) a b r : nterm u a -> nterm u b -> r_le a b = Some r ->
  bterm r /\ bv I r = rleb (rvI a) (rvI b).
Proof.
  intros Na Nb E. unfold r_le in E.
  destruct (is_constant a && is_constant b) eqn:C.
  { apply andb_true_iff in C. destruct C as [Ca Cb]. eapply num_cmp_sound; eauto. exact fr_leb_rleb. }
  destruct (is_zero a && is_minus b) eqn:C1.
  - apply andb_true_iff in C1. destruct C1 as [Hz Hm]. inversion E; subst.
    apply is_minus_top in Hm. destruct b as [ob lb]. cbn in Hm. subst ob.
    destruct (nterm_args OMinus u lb (or_intror (or_intror (or_introl eq_refl))) Nb) as [_ Fb].
    assert (exists x y, lb = [x; y]) as (x & y & ->).
    { destruct Nb as [Ob _]. apply okt_node in Ob. cbn in Ob. destruct lb as [|x [|y [|? ?]]]; try discriminate. eauto. }
    inversion Fb as [|? ? Nx Fb']; subst. inversion Fb' as [|? ? Ny ?]; subst.
    change (arg (T OMinus [x; y]) 1) with y. change (arg (T OMinus [x; y]) 0) with x. unfold mk_le.
    split; [apply (bterm_rel OLe u); auto|]. rewrite (bv_le u) by auto.
    destruct (rv_minus I Hwf u x y Hu Nx Ny) as [_ Rm]. rewrite Rm, (is_zero_rv I u _ Na Hz).
    unfold rleb. destruct (Rle_dec (rvI y) (rvI x)); destruct (Rle_dec 0 (rvI x - rvI y)); auto; lra.
  - destruct (is_zero b && is_minus b) eqn:C2.
    + exfalso. apply andb_true_iff in C2. destruct C2 as [Hz Hm]. apply is_minus_top in Hm.
      unfold is_zero in Hz. rewrite Hm in Hz. discriminate.
    + inversion E; subst. unfold mk_le. split; [apply (bterm_rel OLe u); auto | now apply (bv_le u)].
Qed.
Lemma r_lt_sound u (Hu : arith u) a b r : nterm u a -> nterm u b -> r_lt a b = Some r ->
  bterm r /\ bv I r = rltb (rvI a) (rvI b).
Proof.
  intros Na Nb E. unfold r_lt in E.
  destruct (is_constant a && is_constant b) eqn:C.
  { apply andb_true_iff in C. destruct C as [Ca Cb]. eapply num_cmp_sound; eauto. exact fr_ltb_rltb. }
  inversion E; subst. unfold mk_lt. split; [apply (bterm_rel OLt u); auto | now apply (bv_lt u)].
Qed.

Lemma r_toreal_sound a r : nterm TInt a -> r_toreal a = Some r ->
  nterm TReal r /\ eval I r = eval I (T OToReal [a]).
Proof.
  intros Na E. unfold r_toreal in E.
  assert (Hint : forall z, a = TIntC z -> nterm TReal (mk_real (z, 1%Z)) /\ eval I (mk_real (z, 1%Z)) = eval I (T OToReal [a])).
  { intros z ->. assert (D : snd (z, 1%Z) <> 0%Z) by (cbn; lia).
    destruct (nterm_mk_real I TReal (z, 1%Z) eq_refl D) as [N R]. split; auto.
    destruct N as [O Tc]. pose proof (okt_sound _ I TReal O Tc Hwf) as Hty.
    destruct (eval I (mk_real (z, 1%Z))) eqn:Ev; try contradiction. unfold rv in R. rewrite Ev in R. cbn in R.
    rewrite eval_plain by reflexivity. cbn. f_equal. rewrite R. apply q2r_int. }
  destruct (is_constant a) eqn:Ca.
  - destruct (nterm_const_shape TInt a Na Ca (or_introl eq_refl)) as [[_ (z & ->)]|[? _]]; [|discriminate].
    cbn in E. inversion E; subst. now apply Hint.
  - unfold mk_toreal in E. destruct Na as [Oa Ta]. rewrite Ta in E.
    destruct (top a) eqn:Et; inversion E; subst;
      try (split; [split; [apply okt_intro; [reflexivity | repeat constructor; auto] | rewrite tc_tcs; cbn; rewrite Ta; reflexivity] | reflexivity]).
    exfalso. destruct a as [o l]. cbn in Et. subst o. cbn in Ca. discriminate.
Qed.
End Rules2d.

(* ------------------------------------------------------------------ Div *)
Section Rules2e.
Variable I : interp.
Hypothesis Hwf : wfi I.
Notation rvI := (rv I).

Lemma nterm_div_node t a b : arith t -> nterm t a -> nterm t b -> nterm t (T ODiv [a; b]).
Proof.
  intros Ht Na Nb. apply nterm_node.
  - right; right; right; reflexivity.
  - exact Ht.
  - reflexivity.
  - discriminate.
  - constructor; [exact Na | constructor; [exact Nb | constructor]].
Qed.
Lemma real_val a : nterm TReal a -> eval I a = VReal (rvI a).
Proof.
  intros Na. pose proof (nterm_num I TReal a Hwf (or_intror eq_refl) Na) as [x Hx]. unfold rv. now rewrite Hx.
Qed.
Lemma int_val a : nterm TInt a -> exists z, eval I a = VInt z.
Proof. intros Na. exact (nterm_num I TInt a Hwf (or_introl eq_refl) Na). Qed.

Lemma mk_div_sound t (Ht : arith t) a b r : nterm t a -> nterm t b -> mk_div a b = Some r ->
  nterm t r /\ eval I r = eval I (T ODiv [a; b]).
Proof.
  intros Na Nb E. unfold mk_div in E.
  assert (Hnode : nterm t (T ODiv [a; b]) /\ eval I (T ODiv [a; b]) = eval I (T ODiv [a; b])).
  { split; [now apply nterm_div_node | reflexivity]. }
  destruct (is_zero b) eqn:Hz; [inversion E; subst; exact Hnode|].
  destruct (top b) eqn:Eb; try (inversion E; subst; exact Hnode).
  (* division by a non-zero Real constant: multiplication by its inverse *)
  assert (Cb : is_constant b = true) by (destruct b; cbn in Eb; subst; reflexivity).
  destruct (nterm_const_shape t b Nb Cb Ht) as [[_ (z & ->)]|[-> (n & d & -> & D)]]; [discriminate|].
  cbn in Eb. inversion Eb; subst num den. clear Eb.
  assert (Hn : n <> 0%Z) by (unfold is_zero in Hz; cbn in Hz; now apply Z.eqb_neq).
  unfold fr_div in E. cbn [fst snd] in E. rewrite (proj2 (Z.eqb_neq n 0) Hn) in E.
  assert (Dinv : snd (fr_norm (1 * d) (1 * n)) <> 0%Z) by (pose proof (fr_norm_pos (1 * d) (1 * n)); lia).
  destruct (nterm_mk_real I TReal (fr_norm (1 * d) (1 * n)) eq_refl Dinv) as [Ni Ri].
  assert (Fm : Forall (nterm TReal) [a; mk_real (fr_norm (1 * d) (1 * n))]) by (constructor; [exact Na | constructor; [exact Ni | constructor]]).
  destruct (mk_times_sound I Hwf TReal _ r Ht Fm E) as [Nr Rr]. split; auto.
  rewrite (real_val r Nr), Rr. rewrite eval_plain by reflexivity. cbn [map op_sem].
  rewrite (real_val a Na). cbn [eval TRealC op_sem map vdiv].
  assert (R1 : IZR n <> 0%R) by (now apply not_0_IZR). assert (R2 : IZR d <> 0%R) by (apply not_0_IZR; lia).
  destruct (Req_EM_T (Q2R' n d) 0) as [H0|_].
  - exfalso. unfold Q2R' in H0. apply R1. apply (Rmult_eq_compat_r (IZR d)) in H0. unfold Rdiv in H0.
    rewrite Rmult_assoc, Rinv_l, Rmult_1_r, Rmult_0_l in H0 by exact R2. exact H0.
  - f_equal. rewrite prodT_cons, prodT_one, Ri, q2r_norm. unfold Q2R'. rewrite !mult_IZR. field. auto.
Qed.

Lemma smt_div_floor l r : r <> 0%Z ->
  smt_div l r = if (0 <? r)%Z then (l / r)%Z else (- (l / - r))%Z.
Proof.
  intros Hr. unfold smt_div. destruct (Z.leb_spec 0 r); destruct (Z.ltb_spec 0 r); auto; lia.
Qed.

Lemma r_div_sound t (Ht : arith t) a b r : nterm t a -> nterm t b -> r_div a b = Some r ->
  nterm t r /\ (~ is_zero_val (eval I b) -> eval I r = eval I (T ODiv [a; b])).
Proof.
  intros Na Nb E. unfold r_div in E.
  destruct (is_constant a && is_constant b && negb (is_zero b)) eqn:C.
  - apply andb_true_iff in C. destruct C as [C Hz]. apply andb_true_iff in C. destruct C as [Ca Cb].
    apply negb_true_iff in Hz.
    destruct (nterm_const_shape t a Na Ca Ht) as [[-> (z1 & ->)]|[-> (n1 & d1 & -> & D1)]].
    + destruct (nterm_const_shape TInt b Nb Cb Ht) as [[_ (z2 & ->)]|[? _]]; [|discriminate].
      assert (Hz2 : z2 <> 0%Z) by (unfold is_zero in Hz; cbn in Hz; now apply Z.eqb_neq).
      cbn [top TIntC] in E. unfold Simplifier.bind, py_floordiv in E.
      assert (Hm : (- z2 =? 0)%Z = false) by (apply Z.eqb_neq; lia).
      rewrite (proj2 (Z.eqb_neq z2 0) Hz2), Hm in E.
      assert (Er : r = mk_int (smt_div z1 z2)).
      { rewrite smt_div_floor by exact Hz2. destruct (0 <? z2)%Z; inversion E; reflexivity. }
      subst r. split; [apply (nterm_mk_int I TInt _ eq_refl)|]. intros _.
      rewrite eval_plain by reflexivity. cbn. now rewrite (proj2 (Z.eqb_neq z2 0) Hz2).
    + destruct (nterm_const_shape TReal b Nb Cb Ht) as [[? _]|[_ (n2 & d2 & -> & D2)]]; [discriminate|].
      assert (Hn2 : n2 <> 0%Z) by (unfold is_zero in Hz; cbn in Hz; now apply Z.eqb_neq).
      cbn [top TRealC num_value] in E. unfold Simplifier.bind, fr_div in E. cbn [fst snd] in E.
      rewrite (proj2 (Z.eqb_neq n2 0) Hn2) in E. inversion E; subst.
      assert (Dq : snd (fr_norm (n1 * d2) (d1 * n2)) <> 0%Z) by (pose proof (fr_norm_pos (n1 * d2) (d1 * n2)); lia).
      destruct (nterm_mk_real I TReal _ eq_refl Dq) as [Nq Rq]. split; auto. intros _.
      rewrite (real_val _ Nq), Rq, q2r_norm. rewrite eval_plain by reflexivity. cbn.
      assert (R1 : IZR n2 <> 0%R) by (now apply not_0_IZR). assert (R2 : IZR d2 <> 0%R) by (apply not_0_IZR; lia).
      assert (R3 : IZR d1 <> 0%R) by (apply not_0_IZR; lia).
      destruct (Req_EM_T (Q2R' n2 d2) 0) as [H0|_].
      * exfalso. unfold Q2R' in H0. apply R1. apply (Rmult_eq_compat_r (IZR d2)) in H0. unfold Rdiv in H0.
        rewrite Rmult_assoc, Rinv_l, Rmult_1_r, Rmult_0_l in H0 by exact R2. exact H0.
      * f_equal. unfold Q2R'. rewrite !mult_IZR. field. auto.
  - destruct (is_constant a && is_zero a) eqn:C1.
    + apply andb_true_iff in C1. destruct C1 as [Ca Hza]. inversion E; subst. split; auto. intros Hnz.
      rewrite eval_plain by reflexivity. cbn [map op_sem].
      destruct (nterm_const_shape t r Na Ca Ht) as [[-> (z1 & ->)]|[-> (n1 & d1 & -> & D1)]].
      * assert (z1 = 0%Z) by (unfold is_zero in Hza; cbn in Hza; now apply Z.eqb_eq). subst z1.
        destruct (int_val b Nb) as [y Hy]. rewrite Hy in *. cbn in Hnz. cbn.
        rewrite (proj2 (Z.eqb_neq y 0) Hnz). f_equal. unfold smt_div. destruct (0 <=? y)%Z; [now rewrite Z.div_0_l | rewrite Z.div_0_l; lia].
      * assert (n1 = 0%Z) by (unfold is_zero in Hza; cbn in Hza; now apply Z.eqb_eq). subst n1.
        rewrite (real_val b Nb) in *. cbn in Hnz. cbn. destruct (Req_EM_T (rvI b) 0); [contradiction|].
        f_equal. unfold Q2R', Rdiv. rewrite !Rmult_0_l. reflexivity.
    + destruct (is_constant b && is_one b) eqn:C2.
      * apply andb_true_iff in C2. destruct C2 as [Cb H1]. inversion E; subst. split; auto. intros _.
        rewrite eval_plain by reflexivity. cbn [map op_sem].
        destruct (nterm_const_shape t b Nb Cb Ht) as [[-> (z1 & ->)]|[-> (n1 & d1 & -> & D1)]].
        -- assert (z1 = 1%Z) by (unfold is_one in H1; cbn in H1; now apply Z.eqb_eq). subst z1.
           destruct (int_val r Na) as [x Hx]. rewrite Hx. cbn. f_equal. unfold smt_div. cbn. now rewrite Z.div_1_r.
        -- unfold is_one in H1. cbn in H1. apply andb_true_iff in H1. destruct H1 as [E1 E2]. apply Z.eqb_eq in E1, E2. subst.
           rewrite (real_val r Na). cbn. destruct (Req_EM_T (Q2R' 1 1) 0) as [H0|_]; [unfold Q2R' in H0; lra|].
           f_equal. unfold Q2R'. field.
      * destruct (mk_div_sound t Ht a b r Na Nb E) as [N Ev]. split; auto.
Qed.
End Rules2e.

(* ------------------------------------------------------------------ Pow *)
Section Rules2f.
Variable I : interp.
Hypothesis Hwf : wfi I.

(* shape of a Pow node of the fragment: same sort on both sides, exponent an integer constant *)
Lemma pow_shape a e ty : okt (T OPow [a; e]) = true -> tc (T OPow [a; e]) = Some ty ->
  ty = TReal /\
  ((nterm TInt a /\ exists y, e = TIntC y) \/ (nterm TReal a /\ exists n, e = TRealC n 1)).
Proof.
  intros Hok Htc. pose proof (okt_args _ _ Hok) as F. pose proof (okt_node _ _ Hok) as Hn.
  destruct (tc_inv _ _ _ Htc) as (tys & Ht & Hr). pose proof (tcs_Forall2 _ _ Ht) as F2.
  inversion F2 as [|? ta ? ? Ha F2']; subst. inversion F2' as [|? te ? ? He F2'']; subst. inversion F2''; subst.
  inversion F as [|? ? Oa F']; subst.
  cbn in Hr. destruct (ty_eqb ta te) eqn:Et; [|discriminate]. apply ty_eqb_eq in Et. subst te. cbn in Hr.
  assert (ty = TReal) by (destruct ta; try discriminate; inversion Hr; reflexivity). subst ty. split; [reflexivity|].
  cbn in Hn. destruct e as [oe le]. destruct oe; try discriminate Hn; destruct le; try discriminate Hn.
  - apply Z.eqb_eq in Hn. subst den.
    cbn in He. inversion He; subst. right. split; [split; auto|]. exists num. reflexivity.
  - cbn in He. inversion He; subst. left. split; [split; auto|]. exists z. reflexivity.
Qed.

(* Fraction ** integer *)
Lemma fr_pow_int_sound n d p f : d <> 0%Z -> fr_pow_int (n, d) p = Some f ->
  snd f <> 0%Z /\
  q2r f = (if (0 <=? p)%Z then Q2R' n d ^ Z.to_nat p else / (Q2R' n d ^ Z.to_nat (- p)))%R /\
  ((p < 0)%Z -> n <> 0%Z).
Proof.
  intros Hd E. unfold fr_pow_int in E. destruct (Z.leb_spec 0 p) as [Hp|Hp].
  - inversion E; subst f. cbn [snd]. split; [apply Z.pow_nonzero; auto|]. split; [|lia].
    unfold q2r, Q2R'. cbn [fst snd]. rewrite !pow_IZR_nat by exact Hp. symmetry. apply Rdiv_pow. now apply not_0_IZR.
  - assert (Hk : (0 <= - p)%Z) by lia.
    assert (Hinv : forall a b : Z, a <> 0%Z -> b <> 0%Z -> (IZR a / IZR b = IZR n / IZR d)%R ->
               (IZR (b ^ - p) / IZR (a ^ - p) = / ((IZR n / IZR d) ^ Z.to_nat (- p)))%R).
    { intros a0 b0 Ha0 Hb0 Eab. rewrite !pow_IZR_nat by exact Hk. rewrite <- Eab. rewrite Rdiv_pow by (now apply not_0_IZR).
      field. split; apply pow_nonzero; now apply not_0_IZR. }
    destruct (Z.ltb_spec 0 n) as [Hn|Hn].
    + inversion E; subst f. cbn [snd]. split; [apply Z.pow_nonzero; lia|]. split; [|lia].
      unfold q2r, Q2R'. cbn [fst snd]. apply Hinv; auto; lia.
    + destruct (Z.eqb_spec n 0) as [->|Hn0]; [discriminate|]. inversion E; subst f. cbn [snd].
      split; [apply Z.pow_nonzero; lia|]. split; [|lia].
      unfold q2r, Q2R'. cbn [fst snd]. apply Hinv; try lia. rewrite !opp_IZR. field. repeat split; try (apply not_0_IZR; lia).
Qed.

Lemma r_pow_sound a e ty r : okt (T OPow [a; e]) = true -> tc (T OPow [a; e]) = Some ty ->
  r_pow a e = Some r -> res_ok I r ty (eval I (T OPow [a; e])).
Proof.
  intros Hok Htc E. destruct (pow_shape a e ty Hok Htc) as [-> Hsh].
  assert (Hnode : res_ok I (T OPow [a; e]) TReal (eval I (T OPow [a; e]))) by (repeat split; auto).
  unfold r_pow in E.
  assert (Hres : forall f v, snd f <> 0%Z -> eval I (T OPow [a; e]) = VReal v -> q2r f = v ->
             res_ok I (mk_real f) TReal (eval I (T OPow [a; e]))).
  { intros f v D Ev Eq. destruct (nterm_mk_real I TReal f eq_refl D) as [[O Tc] R]. repeat split; auto.
    pose proof (okt_sound _ I TReal O Tc Hwf) as Hty. rewrite Ev.
    destruct (eval I (mk_real f)) eqn:Em; try contradiction. unfold rv in R. rewrite Em in R. cbn in R. f_equal. now rewrite R. }
  destruct Hsh as [[Na (y & ->)]|[Na (m & ->)]].
  - (* Int *)
    destruct (is_constant a) eqn:Ca.
    + destruct (nterm_const_shape TInt a Na Ca (or_introl eq_refl)) as [[_ (z & ->)]|[? _]]; [|discriminate].
      cbn [num_value top TIntC constant_value] in E.
      destruct (negb (fst (z, 1%Z) =? 0)%Z || fr_leb (0%Z, 1%Z) (y, 1%Z)) eqn:Hc.
      * cbn [fr_is_int snd fst] in E. cbn [Z.eqb] in E. unfold Simplifier.bind in E.
        destruct (fr_pow_int (z, 1%Z) y) as [f|] eqn:Ef; [|discriminate]. inversion E; subst r.
        destruct (fr_pow_int_sound z 1 y f ltac:(lia) Ef) as (D & Q & Hz).
        refine (Hres f _ D _ Q).
        rewrite eval_plain by reflexivity. cbn. replace (Q2R' z 1) with (IZR z) by (unfold Q2R'; field).
        destruct (Z.leb_spec 0 y) as [Hy|Hy].
        -- f_equal. now apply pow_IZR_nat.
        -- f_equal. unfold rpow_neg. destruct (Req_EM_T (IZR z) 0) as [E0|]; [|reflexivity].
           exfalso. apply eq_IZR in E0. exact (Hz Hy E0).
      * exfalso. apply orb_false_iff in Hc. destruct Hc as [Hz Hy]. apply negb_false_iff in Hz. cbn [fst] in Hz. apply Z.eqb_eq in Hz. subst z.
        unfold fr_leb in Hy. cbn [fst snd] in Hy. apply Z.leb_gt in Hy.
        unfold mk_pow in E. cbn in E. rewrite (proj2 (Z.leb_gt 0 y)) in E by lia. discriminate E.
    + assert (Hnv : num_value a = None).
      { destruct a as [o l]. unfold num_value. cbn [top]. destruct o; auto; cbn in Ca; discriminate. }
      rewrite Hnv in E. unfold mk_pow in E. cbn [is_constant TIntC negb] in E. rewrite Ca in E. inversion E; subst. exact Hnode.
  - (* Real *)
    destruct (is_constant a) eqn:Ca.
    + destruct (nterm_const_shape TReal a Na Ca (or_intror eq_refl)) as [[? _]|[_ (n & d & -> & D)]]; [discriminate|].
      cbn [num_value top TRealC constant_value] in E.
      destruct (negb (fst (n, d) =? 0)%Z || fr_leb (0%Z, 1%Z) (m, 1%Z)) eqn:Hc.
      * cbn [fr_is_int snd fst] in E. cbn [Z.eqb] in E. unfold Simplifier.bind in E.
        destruct (fr_pow_int (n, d) m) as [f|] eqn:Ef; [|discriminate]. inversion E; subst r.
        destruct (fr_pow_int_sound n d m f ltac:(lia) Ef) as (D' & Q & Hz).
        refine (Hres f _ D' _ Q).
        rewrite eval_plain by reflexivity. cbn. replace (Q2R' m 1) with (IZR m) by (unfold Q2R'; field).
        destruct (Z.leb_spec 0 m) as [Hm|Hm].
        -- now rewrite (nat_of_real_IZR _ Hm).
        -- rewrite (nat_of_real_neg m Hm). rewrite <- opp_IZR. rewrite (nat_of_real_IZR (- m)) by lia. f_equal.
           unfold rpow_neg. destruct (Req_EM_T (Q2R' n d) 0) as [E0|]; [|reflexivity].
           exfalso. apply (Hz Hm). unfold Q2R' in E0.
           assert (Hd0 : IZR d <> 0%R) by (apply not_0_IZR; lia).
           apply eq_IZR. apply (Rmult_eq_reg_r (/ IZR d)); [|now apply Rinv_neq_0_compat]. rewrite Rmult_0_l. exact E0.
      * exfalso. apply orb_false_iff in Hc. destruct Hc as [Hz Hy]. apply negb_false_iff in Hz. cbn [fst] in Hz. apply Z.eqb_eq in Hz. subst n.
        unfold fr_leb in Hy. cbn [fst snd] in Hy. apply Z.leb_gt in Hy.
        unfold mk_pow in E. cbn in E. unfold fr_pow_int in E. rewrite (proj2 (Z.leb_gt 0 m)) in E by lia. cbn in E. discriminate E.
    + assert (Hnv : num_value a = None).
      { destruct a as [o l]. unfold num_value. cbn [top]. destruct o; auto; cbn in Ca; discriminate. }
      rewrite Hnv in E. unfold mk_pow in E. cbn [is_constant TRealC negb] in E. rewrite Ca in E. inversion E; subst. exact Hnode.
Qed.
End Rules2f.

(* ================================================================== bit-vector rules, stage 3a *)
Definition bvterm (w : Z) (a : term) : Prop := okt a = true /\ tc a = Some (TBV w).
Definition bvz (I : interp) (a : term) : Z := match eval I a with VBV _ x => x | _ => 0%Z end.

Lemma bv_width_ok : forall a w, okt a = true -> tc a = Some (TBV w) -> bv_width a = w.
Proof.
  induction a as [o args IH] using term_ind'. intros w Hok Htc.
  pose proof (okt_node _ _ Hok) as Hn. pose proof (okt_args _ _ Hok) as Fa.
  destruct (tc_inv _ _ _ Htc) as (tys & Ht & Hr). pose proof (tcs_Forall2 _ _ Ht) as F2.
  destruct o; cbn [ok_node] in Hn; try discriminate Hn; cbn [tc_rule] in Hr; cbn [bv_width].
  - destruct tys as [|x [|? ?]]; try discriminate. destruct (ty_eqb x TBool); discriminate.
  - destruct tys as [|x [|? ?]]; try discriminate. destruct (ty_eqb x TBool); discriminate.
  - apply ttt_out in Hr. discriminate.
  - apply ttt_out in Hr. discriminate.
  - apply ttt_out in Hr. discriminate.
  - apply ttt_out in Hr. discriminate.
  - apply ttt_out in Hr. discriminate.
  - destruct tys; [|discriminate]. inversion Hr; subst. reflexivity.
  - destruct t; try discriminate. destruct (tys_eqb tys ps); [|discriminate]. inversion Hr; subst. reflexivity.
  - destruct tys; discriminate.
  - destruct tys; discriminate.
  - destruct tys; discriminate.
  - destruct tys; discriminate.
  - apply arith_rule_inv in Hr. destruct Hr as [[E|E] _]; discriminate E.
  - apply arith_rule_inv in Hr. destruct Hr as [[E|E] _]; discriminate E.
  - apply arith_rule_inv in Hr. destruct Hr as [[E|E] _]; discriminate E.
  - apply rel_rule_inv in Hr. destruct Hr as [E _]; discriminate E.
  - apply rel_rule_inv in Hr. destruct Hr as [E _]; discriminate E.
  - apply equals_out in Hr. discriminate.
  - (* ite *) destruct args as [|c [|a [|b [|? ?]]]]; try discriminate.
    inversion F2 as [|? tc0 ? ? Hc F2']; subst. inversion F2' as [|? ta ? ? Ha F2'']; subst.
    inversion F2'' as [|? tb ? ? Hb F3]; subst. inversion F3; subst.
    cbn in Hr. destruct (ty_eqb tc0 TBool && ty_eqb ta tb); [|discriminate]. inversion Hr; subst.
    inversion IH as [|? ? _ IH']; subst. inversion Fa as [|? ? _ Fa']; subst.
    apply (Forall_inv IH'); auto. exact (Forall_inv Fa').
  - apply ttt_out in Hr. discriminate.
  - destruct tys; [|discriminate]. inversion Hr; subst. reflexivity.
  - (* bv operators *)
    apply andb_true_iff in Hn. destruct Hn as [_ Hk].
    destruct k; try discriminate Hk; cbn in Hr;
      try (destruct (forallb (fun a => ty_eqb a (TBV w0)) tys); [|discriminate]; inversion Hr; reflexivity).
    + destruct tys as [|ta [|tb ?]]; try discriminate; destruct ta as [| | | |wa| | |]; try discriminate;
      destruct tb as [| | | |wb| | |]; try discriminate. destruct (wa + wb =? w0)%Z; [|discriminate]. inversion Hr; reflexivity.
    + apply andb_true_iff in Hk. destruct Hk as [_ Hw1]. apply Z.eqb_eq in Hw1. subst w0.
      destruct tys as [|ta [|tb [|? ?]]]; try discriminate. destruct (ty_eqb ta tb && is_bv ta); [|discriminate]. inversion Hr; reflexivity.
  - destruct k; try discriminate Hn; apply bv_to_bool_out in Hr; discriminate.
  - (* extract *) destruct tys as [|ta ?]; try discriminate. destruct ta as [| | | |wa| | |]; try discriminate.
    destruct ((s >=? wa)%Z || (e >=? wa)%Z); [discriminate|]. destruct (wa <? w0)%Z; [discriminate|].
    destruct (negb (w0 =? e - s + 1)%Z); [discriminate|]. inversion Hr; reflexivity.
  - (* rol *) destruct ((w0 <? k)%Z || (w0 <? 0)%Z || (k <? 0)%Z); [discriminate|].
    destruct tys as [|ta ?]; try discriminate. destruct ta as [| | | |wa| | |]; try discriminate.
    destruct (w0 =? wa)%Z; [|discriminate]. inversion Hr; reflexivity.
  - (* ror *) destruct ((w0 <? k)%Z || (w0 <? 0)%Z || (k <? 0)%Z); [discriminate|].
    destruct tys as [|ta ?]; try discriminate. destruct ta as [| | | |wa| | |]; try discriminate.
    destruct (w0 =? wa)%Z; [|discriminate]. inversion Hr; reflexivity.
  - (* zext *) destruct tys as [|ta ?]; try discriminate. destruct ta as [| | | |wa| | |]; try discriminate.
    destruct ((w0 <? wa)%Z || (w0 <? 0)%Z); [discriminate|]. inversion Hr; reflexivity.
  - (* sext *) destruct tys as [|ta ?]; try discriminate. destruct ta as [| | | |wa| | |]; try discriminate.
    destruct ((w0 <? wa)%Z || (w0 <? 0)%Z); [discriminate|]. inversion Hr; reflexivity.
  - (* strings *) destruct (str_rule_out _ _ _ Hr) as [E|[E|E]]; discriminate E.
  - (* select *) destruct args as [|a [|i [|? ?]]]; try discriminate.
    inversion F2 as [|? ta ? ? Ha F2']; subst. inversion F2' as [|? ti ? ? Hi F2'']; subst. inversion F2''; subst.
    destruct ta as [| | | | |i0 e| |]; try discriminate. destruct (ty_eqb i0 ti); [|discriminate]. inversion Hr; subst. now rewrite Ha.
  - (* store *) destruct tys as [|ta [|ti [|tv ?]]]; try discriminate; destruct ta; try discriminate; destruct (_ && _); discriminate.
  - (* array value *) destruct tys as [|td tr]; [discriminate|]. destruct (array_value_ok it td tr true); discriminate.
  - apply arith_rule_inv in Hr. destruct Hr as [[E|E] _]; discriminate E.
  - destruct tys as [|ta [|tb ?]]; try discriminate. destruct (negb (ty_eqb ta tb)); [discriminate|]. destruct ta; discriminate.
  - destruct tys as [|ta ?]; try discriminate. destruct (is_bv ta); discriminate.
Qed.
(* every sort of the fragment is inhabited and first-order (positive widths everywhere) *)
Lemma okt_inhb : forall a t, okt a = true -> tc a = Some t -> inhb t = true.
Proof.
  induction a as [o args IH] using term_ind'. intros t0 Hok Htc.
  pose proof (okt_node _ _ Hok) as Hn. pose proof (okt_args _ _ Hok) as Fa.
  destruct (tc_inv _ _ _ Htc) as (tys & Ht & Hr). pose proof (tcs_Forall2 _ _ Ht) as F2.
  assert (IHa : forall a ta, In a args -> tc a = Some ta -> inhb ta = true).
  { intros a ta Hin Ha. rewrite Forall_forall in IH, Fa. apply (IH a Hin); auto. }
  destruct o; cbn [ok_node] in Hn; try discriminate Hn; cbn [tc_rule] in Hr.
  - destruct tys as [|x [|? ?]]; try discriminate. destruct (ty_eqb x TBool); inversion Hr; reflexivity.
  - destruct tys as [|x [|? ?]]; try discriminate. destruct (ty_eqb x TBool); inversion Hr; reflexivity.
  - apply ttt_out in Hr. now subst.
  - apply ttt_out in Hr. now subst.
  - apply ttt_out in Hr. now subst.
  - apply ttt_out in Hr. now subst.
  - apply ttt_out in Hr. now subst.
  - destruct tys; [|discriminate]. inversion Hr; subst. exact Hn.
  - destruct t; try discriminate. destruct (tys_eqb tys ps); [|discriminate]. inversion Hr; subst. apply andb_true_iff in Hn. tauto.
  - destruct tys; [|discriminate]. inversion Hr; reflexivity.
  - destruct tys; [|discriminate]. inversion Hr; reflexivity.
  - destruct tys; [|discriminate]. inversion Hr; reflexivity.
  - destruct tys; [|discriminate]. inversion Hr; reflexivity.
  - apply arith_rule_inv in Hr. destruct Hr as [[E|E] _]; now subst.
  - apply arith_rule_inv in Hr. destruct Hr as [[E|E] _]; now subst.
  - apply arith_rule_inv in Hr. destruct Hr as [[E|E] _]; now subst.
  - apply rel_rule_inv in Hr. destruct Hr as [E _]; now subst.
  - apply rel_rule_inv in Hr. destruct Hr as [E _]; now subst.
  - apply equals_out in Hr. now subst.
  - (* ite *) destruct args as [|c [|a [|b [|? ?]]]]; try discriminate.
    inversion F2 as [|? tc0 ? ? Hc F2']; subst. inversion F2' as [|? ta ? ? Ha F2'']; subst.
    inversion F2'' as [|? tb ? ? Hb F3]; subst. inversion F3; subst.
    cbn in Hr. destruct (ty_eqb tc0 TBool && ty_eqb ta tb); [|discriminate]. inversion Hr; subst.
    apply (IHa a); cbn; auto.
  - apply ttt_out in Hr. now subst.
  - destruct tys; [|discriminate]. inversion Hr; subst. apply andb_true_iff in Hn. destruct Hn as [Hn _]. apply andb_true_iff in Hn. destruct Hn as [Hn _]. exact Hn.
  - (* bv operators *)
    apply andb_true_iff in Hn. destruct Hn as [Hw0 Hk].
    destruct k; try discriminate Hk; cbn in Hr;
      try (destruct (forallb (fun a => ty_eqb a (TBV w)) tys); [|discriminate]; inversion Hr; subst; exact Hw0).
    + destruct tys as [|ta [|tb ?]]; try discriminate; destruct ta as [| | | |wa| | |]; try discriminate;
      destruct tb as [| | | |wb| | |]; try discriminate. destruct (wa + wb =? w)%Z; [|discriminate]. inversion Hr; subst; exact Hw0.
    + apply andb_true_iff in Hk. destruct Hk as [_ Hw1]. apply Z.eqb_eq in Hw1. subst w.
      destruct tys as [|ta [|tb [|? ?]]]; try discriminate. destruct (ty_eqb ta tb && is_bv ta); [|discriminate]. inversion Hr; subst; reflexivity.
  - destruct k; try discriminate Hn; apply bv_to_bool_out in Hr; now subst.
  - (* extract *) destruct tys as [|ta ?]; try discriminate. destruct ta as [| | | |wa| | |]; try discriminate.
    destruct ((s >=? wa)%Z || (e >=? wa)%Z); [discriminate|]. destruct (wa <? w)%Z; [discriminate|].
    destruct (Z.eqb_spec w (e - s + 1)); [|discriminate]. cbn in Hr. inversion Hr; subst.
    apply andb_true_iff in Hn. destruct Hn as [_ Hse]. apply Z.leb_le in Hse. cbn. apply Z.ltb_lt. lia.
  - (* rol *) destruct ((w <? k)%Z || (w <? 0)%Z || (k <? 0)%Z); [discriminate|].
    destruct tys as [|ta ?]; try discriminate. destruct ta as [| | | |wa| | |]; try discriminate.
    destruct (w =? wa)%Z; [|discriminate]. inversion Hr; subst. apply andb_true_iff in Hn. destruct Hn as [_ Hn]. exact Hn.
  - (* ror *) destruct ((w <? k)%Z || (w <? 0)%Z || (k <? 0)%Z); [discriminate|].
    destruct tys as [|ta ?]; try discriminate. destruct ta as [| | | |wa| | |]; try discriminate.
    destruct (w =? wa)%Z; [|discriminate]. inversion Hr; subst. apply andb_true_iff in Hn. destruct Hn as [_ Hn]. exact Hn.
  - (* zext *) destruct args as [|a [|? ?]]; try discriminate. inversion F2 as [|? ta ? ? Ha F2']; subst. inversion F2'; subst.
    destruct ta as [| | | |wa| | |]; try discriminate. destruct (Z.ltb_spec w wa); [discriminate|]. destruct (w <? 0)%Z; [discriminate|].
    cbn in Hr. inversion Hr; subst. pose proof (IHa a (TBV wa) (or_introl eq_refl) Ha) as P. cbn in P. apply Z.ltb_lt in P. cbn. apply Z.ltb_lt. lia.
  - (* sext *) destruct args as [|a [|? ?]]; try discriminate. inversion F2 as [|? ta ? ? Ha F2']; subst. inversion F2'; subst.
    destruct ta as [| | | |wa| | |]; try discriminate. destruct (Z.ltb_spec w wa); [discriminate|]. destruct (w <? 0)%Z; [discriminate|].
    cbn in Hr. inversion Hr; subst. pose proof (IHa a (TBV wa) (or_introl eq_refl) Ha) as P. cbn in P. apply Z.ltb_lt in P. cbn. apply Z.ltb_lt. lia.
  - (* strings *) destruct (str_rule_out _ _ _ Hr) as [E|[E|E]]; now subst.
  - (* select *) destruct args as [|a [|i [|? ?]]]; try discriminate.
    inversion F2 as [|? ta ? ? Ha F2']; subst. inversion F2' as [|? ti ? ? Hi F2'']; subst. inversion F2''; subst.
    destruct ta as [| | | | |i0 e| |]; try discriminate. destruct (ty_eqb i0 ti); [|discriminate]. inversion Hr; subst.
    pose proof (IHa a _ (or_introl eq_refl) Ha) as P. cbn in P. apply andb_true_iff in P. tauto.
  - (* store *) destruct args as [|a [|i [|v [|? ?]]]]; try discriminate.
    inversion F2 as [|? ta ? ? Ha F2']; subst. inversion F2' as [|? ti ? ? Hi F2'']; subst.
    inversion F2'' as [|? tv ? ? Hv F3]; subst. inversion F3; subst.
    destruct ta as [| | | | |i0 e| |]; try discriminate. destruct (ty_eqb i0 ti && ty_eqb e tv); [|discriminate]. inversion Hr; subst.
    exact (IHa a _ (or_introl eq_refl) Ha).
  - (* array value *) destruct args as [|d rest]; [discriminate|]. inversion F2 as [|? td ? trest Hd F2']; subst.
    destruct (array_value_ok it td trest true); [|discriminate]. inversion Hr; subst. cbn.
    unfold arr_node_ok, arr_keys_ok in Hn. repeat (apply andb_true_iff in Hn; destruct Hn as [Hn ?]).
    rewrite (IHa d td (or_introl eq_refl) Hd). rewrite andb_true_r. destruct it; try discriminate Hn; exact Hn.
  - apply arith_rule_inv in Hr. destruct Hr as [[E|E] _]; now subst.
  - destruct tys as [|ta [|tb ?]]; try discriminate. destruct (negb (ty_eqb ta tb)); [discriminate|]. destruct ta; inversion Hr; reflexivity.
  - destruct tys as [|ta ?]; try discriminate. destruct (is_bv ta); inversion Hr; reflexivity.
Qed.
Lemma bvterm_pos a w : okt a = true -> tc a = Some (TBV w) -> (0 < w)%Z.
Proof. intros O Tc. pose proof (okt_inhb a _ O Tc) as H. cbn in H. now apply Z.ltb_lt. Qed.

Section Rules3.
Variable I : interp.
Hypothesis Hwf : wfi I.
Notation bvzI := (bvz I).
Open Scope Z_scope.

Lemma bvterm_eval w a : bvterm w a -> eval I a = VBV w (bvzI a) /\ in_range w (bvzI a).
Proof.
  intros [O Tc]. pose proof (okt_sound a I (TBV w) O Tc Hwf) as H. apply has_ty_bvval in H.
  destruct H as (x & E & R). unfold bvz. rewrite E. auto.
Qed.
Lemma bv_value_shape w a v : bvterm w a -> bv_value a = Some v -> a = TBVC v w /\ in_range w v /\ bvzI a = v.
Proof.
  intros [O Tc] E. destruct a as [o l]. unfold bv_value in E. cbn [top] in E. destruct o; try discriminate. inversion E; subst.
  pose proof (const_no_args _ _ _ Tc Logic.I) as ->. cbn in Tc. inversion Tc; subst.
  pose proof (okt_node _ _ O) as Hn. cbn in Hn. apply andb_true_iff in Hn. destruct Hn as [Hn H3]. apply andb_true_iff in Hn. destruct Hn as [H1 H2].
  apply Z.leb_le in H2. apply Z.ltb_lt in H3. repeat split; auto.
Qed.
Lemma mk_bv_sound w v r : 0 < w -> mk_bv v w = Some r -> bvterm w r /\ bvzI r = v.
Proof.
  intros Hw E. unfold mk_bv in E. destruct (Z.ltb_spec v 0); [discriminate|]. destruct (Z.leb_spec (2 ^ w) v); [discriminate|].
  inversion E; subst. split; [split; [|reflexivity]|reflexivity].
  cbn. rewrite (proj2 (Z.ltb_lt 0 w) Hw), (proj2 (Z.leb_le 0 v) H), (proj2 (Z.ltb_lt v (2 ^ w)) H0). reflexivity.
Qed.
Lemma bvterm_bvop k w a b : 0 < w ->
  (match k with BAnd | BOr | BXor | BAdd | BSub | BMul | BUdiv | BUrem | BLshl | BLshr | BSdiv | BSrem | BAshr => True | _ => False end) ->
  bvterm w a -> bvterm w b -> mk_bvop k a b = T (OBV k w) [a; b] /\ bvterm w (T (OBV k w) [a; b]).
Proof.
  intros Hw Hk [Oa Ta] [Ob Tb]. unfold mk_bvop. rewrite (bv_width_ok a w Oa Ta). split; auto. split.
  - apply okt_intro; [|repeat constructor; auto]. cbn. rewrite (proj2 (Z.ltb_lt 0 w) Hw). destruct k; try contradiction; reflexivity.
  - rewrite tc_tcs. cbn [tcs]. rewrite Ta, Tb. destruct k; try contradiction; cbn; now rewrite !Z.eqb_refl.
Qed.
Lemma bvterm_bvun k w a : 0 < w -> (k = BNot \/ k = BNeg) ->
  bvterm w a -> mk_bvun k a = T (OBV k w) [a] /\ bvterm w (T (OBV k w) [a]).
Proof.
  intros Hw Hk [Oa Ta]. unfold mk_bvun. rewrite (bv_width_ok a w Oa Ta). split; auto. split.
  - apply okt_intro; [|repeat constructor; auto]. cbn. rewrite (proj2 (Z.ltb_lt 0 w) Hw). destruct Hk as [-> | ->]; reflexivity.
  - rewrite tc_tcs. cbn [tcs]. rewrite Ta. destruct Hk as [-> | ->]; cbn; now rewrite !Z.eqb_refl.
Qed.
(* value of a binary node *)
Lemma bvz_bvop k w a b : bvterm w a -> bvterm w b ->
  eval I (T (OBV k w) [a; b]) = bvop_sem k w [VBV w (bvzI a); VBV w (bvzI b)].
Proof.
  intros Na Nb. rewrite eval_plain by reflexivity. cbn [map op_sem].
  destruct (bvterm_eval w a Na) as [-> _]. destruct (bvterm_eval w b Nb) as [-> _]. reflexivity.
Qed.
Lemma bvz_bvun k w a : bvterm w a -> eval I (T (OBV k w) [a]) = bvop_sem k w [VBV w (bvzI a)].
Proof.
  intros Na. rewrite eval_plain by reflexivity. cbn [map op_sem]. destruct (bvterm_eval w a Na) as [-> _]. reflexivity.
Qed.

(* what a rule has to deliver: a BV term of width w whose value is x *)
Definition bv_res (w : Z) (r : term) (x : Z) : Prop := bvterm w r /\ eval I r = VBV w x.
Lemma bv_res_arg w a : bvterm w a -> bv_res w a (bvzI a).
Proof. intros N. split; auto. now destruct (bvterm_eval w a N). Qed.
Lemma bv_res_mk w v r : 0 < w -> mk_bv v w = Some r -> bv_res w r v.
Proof.
  intros Hw E. destruct (mk_bv_sound w v r Hw E) as [N Z]. split; auto.
  destruct (bvterm_eval w r N) as [Ev _]. now rewrite Ev, Z.
Qed.
Lemma bv_res_node k w a b : 0 < w ->
  (match k with BAnd | BOr | BXor | BAdd | BSub | BMul | BUdiv | BUrem | BLshl | BLshr | BSdiv | BSrem | BAshr => True | _ => False end) ->
  bvterm w a -> bvterm w b -> forall x, bvop_sem k w [VBV w (bvzI a); VBV w (bvzI b)] = VBV w x -> bv_res w (mk_bvop k a b) x.
Proof.
  intros Hw Hk Na Nb x E. destruct (bvterm_bvop k w a b Hw Hk Na Nb) as [-> N]. split; auto. now rewrite bvz_bvop.
Qed.

Ltac bvshape H := let v := fresh "v" in let E := fresh "E" in let R := fresh "R" in let Z := fresh "Z" in idtac.

Lemma r_bv_and_sound w a b r : 0 < w -> bvterm w a -> bvterm w b -> r_bv_and w a b = Some r ->
  bv_res w r (Z.land (bvzI a) (bvzI b)).
Proof.
  intros Hw Na Nb E. unfold r_bv_and in E.
  destruct (bvterm_eval w a Na) as [_ Ra]. destruct (bvterm_eval w b Nb) as [_ Rb].
  destruct (bv_value a) as [lhs|] eqn:Va.
  - destruct (bv_value_shape w a lhs Na Va) as (_ & _ & Za). rewrite Za.
    destruct (Z.eqb_spec lhs 0) as [->|_]; [rewrite Z.land_0_l; now apply bv_res_mk|].
    unfold mask in E. destruct (Z.eqb_spec lhs (2 ^ w - 1)) as [->|_].
    { inversion E; subst. rewrite (proj1 (land_mask w _ ltac:(lia) Rb)). now apply bv_res_arg. }
    destruct (bv_value b) as [rhs|] eqn:Vb.
    + destruct (bv_value_shape w b rhs Nb Vb) as (_ & _ & Zb). rewrite Zb. now apply bv_res_mk.
    + inversion E; subst. apply bv_res_node; auto; try exact Logic.I.
  - destruct (bv_value b) as [rhs|] eqn:Vb.
    + destruct (bv_value_shape w b rhs Nb Vb) as (_ & _ & Zb). rewrite Zb.
      destruct (Z.eqb_spec rhs 0) as [->|_]; [rewrite Z.land_0_r; now apply bv_res_mk|].
      unfold mask in E. destruct (Z.eqb_spec rhs (2 ^ w - 1)) as [->|_].
      { inversion E; subst. rewrite (proj2 (land_mask w _ ltac:(lia) Ra)). now apply bv_res_arg. }
      inversion E; subst. apply bv_res_node; auto; try exact Logic.I.
    + inversion E; subst. apply bv_res_node; auto; try exact Logic.I.
Qed.
Lemma r_bv_or_sound w a b r : 0 < w -> bvterm w a -> bvterm w b -> r_bv_or w a b = Some r ->
  bv_res w r (Z.lor (bvzI a) (bvzI b)).
Proof.
  intros Hw Na Nb E. unfold r_bv_or in E.
  destruct (bvterm_eval w a Na) as [_ Ra]. destruct (bvterm_eval w b Nb) as [_ Rb].
  destruct (bv_value a) as [lhs|] eqn:Va.
  - destruct (bv_value_shape w a lhs Na Va) as (_ & _ & Za). rewrite Za.
    destruct (Z.eqb_spec lhs 0) as [->|_]; [inversion E; subst; rewrite Z.lor_0_l; now apply bv_res_arg|].
    unfold mask in E. destruct (Z.eqb_spec lhs (2 ^ w - 1)) as [->|_].
    { rewrite (proj1 (lor_mask w _ Hw Rb)). now apply bv_res_mk. }
    destruct (is_constant b) eqn:Cb.
    + destruct (bv_value b) as [rhs|] eqn:Vb; [|discriminate].
      destruct (bv_value_shape w b rhs Nb Vb) as (_ & _ & Zb). rewrite Zb. now apply bv_res_mk.
    + inversion E; subst. apply bv_res_node; auto; try exact Logic.I.
  - destruct (bv_value b) as [rhs|] eqn:Vb.
    + destruct (bv_value_shape w b rhs Nb Vb) as (_ & _ & Zb). rewrite Zb.
      destruct (Z.eqb_spec rhs 0) as [->|_]; [inversion E; subst; rewrite Z.lor_0_r; now apply bv_res_arg|].
      unfold mask in E. destruct (Z.eqb_spec rhs (2 ^ w - 1)) as [->|_].
      { rewrite (proj2 (lor_mask w _ Hw Ra)). now apply bv_res_mk. }
      inversion E; subst. apply bv_res_node; auto; try exact Logic.I.
    + inversion E; subst. apply bv_res_node; auto; try exact Logic.I.
Qed.
Lemma r_bv_xor_sound w a b r : 0 < w -> bvterm w a -> bvterm w b -> r_bv_xor w a b = Some r ->
  bv_res w r (Z.lxor (bvzI a) (bvzI b)).
Proof.
  intros Hw Na Nb E. unfold r_bv_xor in E.
  destruct (bv_value a) as [x|] eqn:Va; [destruct (bv_value b) as [y|] eqn:Vb|].
  - destruct (bv_value_shape w a x Na Va) as (_ & _ & ->). destruct (bv_value_shape w b y Nb Vb) as (_ & _ & ->). now apply bv_res_mk.
  - inversion E; subst. apply bv_res_node; auto; try exact Logic.I.
  - inversion E; subst. apply bv_res_node; auto; try exact Logic.I.
Qed.
Lemma bv_res_un k w a x : 0 < w -> (k = BNot \/ k = BNeg) -> bvterm w a ->
  bvop_sem k w [VBV w (bvzI a)] = VBV w x -> bv_res w (mk_bvun k a) x.
Proof.
  intros Hw Hk Na E. destruct (bvterm_bvun k w a Hw Hk Na) as [-> N]. split; auto. now rewrite bvz_bvun.
Qed.
Lemma r_bv_not_sound w a r : 0 < w -> bvterm w a -> r_bv_not w a = Some r -> bv_res w r (2 ^ w - 1 - bvzI a).
Proof.
  intros Hw Na E. unfold r_bv_not in E. destruct (bv_value a) as [v|] eqn:Va.
  - destruct (bv_value_shape w a v Na Va) as (_ & Rv & ->). unfold py_and, py_invert, mask in E.
    rewrite (not_fold w v ltac:(lia) Rv) in E. now apply bv_res_mk.
  - inversion E; subst. apply bv_res_un; auto.
Qed.
Lemma r_bv_neg_sound w a r : 0 < w -> bvterm w a -> r_bv_neg w a = Some r -> bv_res w r (bv_neg w (bvzI a)).
Proof.
  intros Hw Na E. unfold r_bv_neg in E. destruct (bv_value a) as [v|] eqn:Va.
  - destruct (bv_value_shape w a v Na Va) as (_ & Rv & ->). rewrite (neg_fold w v ltac:(lia)) in E. now apply bv_res_mk.
  - inversion E; subst. apply bv_res_un; auto.
Qed.
Lemma r_bv_add_sound w a b r : 0 < w -> bvterm w a -> bvterm w b -> r_bv_add w a b = Some r ->
  bv_res w r (bvmod w (bvzI a + bvzI b)).
Proof.
  intros Hw Na Nb E. unfold r_bv_add in E.
  destruct (bvterm_eval w a Na) as [_ [A0 A1]]. destruct (bvterm_eval w b Nb) as [_ [B0 B1]].
  destruct (bv_value a) as [lhs|] eqn:Va.
  - destruct (bv_value_shape w a lhs Na Va) as (_ & _ & Za). rewrite Za.
    destruct (Z.eqb_spec lhs 0) as [->|_].
    { inversion E; subst. unfold bvmod. rewrite Z.add_0_l, Z.mod_small by lia. now apply bv_res_arg. }
    destruct (bv_value b) as [rhs|] eqn:Vb.
    + destruct (bv_value_shape w b rhs Nb Vb) as (_ & _ & ->). now apply bv_res_mk.
    + inversion E; subst. apply bv_res_node; auto; try exact Logic.I.
  - destruct (bv_value b) as [rhs|] eqn:Vb.
    + destruct (bv_value_shape w b rhs Nb Vb) as (_ & _ & Zb). rewrite Zb. destruct rhs as [|p|p].
      * inversion E; subst. unfold bvmod. rewrite Z.add_0_r, Z.mod_small by lia. now apply bv_res_arg.
      * inversion E; subst. rewrite <- Zb. apply bv_res_node; auto; try exact Logic.I.
      * inversion E; subst. rewrite <- Zb. apply bv_res_node; auto; try exact Logic.I.
    + inversion E; subst. apply bv_res_node; auto; try exact Logic.I.
Qed.
Lemma r_bv_mul_sound w a b r : 0 < w -> bvterm w a -> bvterm w b -> r_bv_mul w a b = Some r ->
  bv_res w r (bvmod w (bvzI a * bvzI b)).
Proof.
  intros Hw Na Nb E. unfold r_bv_mul in E.
  destruct (bvterm_eval w a Na) as [_ [A0 A1]]. destruct (bvterm_eval w b Nb) as [_ [B0 B1]].
  assert (H0 : bvmod w 0 = 0) by (unfold bvmod; apply Z.mod_0_l; pose proof (pow2_pos w ltac:(lia)); lia).
  destruct (bv_value a) as [lhs|] eqn:Va.
  - destruct (bv_value_shape w a lhs Na Va) as (_ & _ & Za). rewrite Za.
    destruct (Z.eqb_spec lhs 0) as [->|_]; [rewrite Z.mul_0_l, H0; now apply bv_res_mk|].
    destruct (Z.eqb_spec lhs 1) as [->|_].
    { inversion E; subst. unfold bvmod. rewrite Z.mul_1_l, Z.mod_small by lia. now apply bv_res_arg. }
    destruct (bv_value b) as [rhs|] eqn:Vb.
    + destruct (bv_value_shape w b rhs Nb Vb) as (_ & _ & ->). now apply bv_res_mk.
    + inversion E; subst. apply bv_res_node; auto; try exact Logic.I.
  - destruct (bv_value b) as [rhs|] eqn:Vb.
    + destruct (bv_value_shape w b rhs Nb Vb) as (_ & _ & Zb). rewrite Zb.
      destruct (Z.eqb_spec rhs 0) as [->|_]; [rewrite Z.mul_0_r, H0; now apply bv_res_mk|].
      destruct (Z.eqb_spec rhs 1) as [->|_].
      { inversion E; subst. unfold bvmod. rewrite Z.mul_1_r, Z.mod_small by lia. now apply bv_res_arg. }
      inversion E; subst. apply bv_res_node; auto; try exact Logic.I.
    + inversion E; subst. apply bv_res_node; auto; try exact Logic.I.
Qed.
Lemma r_bv_udiv_sound w a b r : 0 < w -> bvterm w a -> bvterm w b -> r_bv_udiv w a b = Some r ->
  bv_res w r (bv_udiv w (bvzI a) (bvzI b)).
Proof.
  intros Hw Na Nb E. unfold r_bv_udiv in E.
  destruct (bvterm_eval w a Na) as [_ [A0 A1]].
  destruct (bv_value b) as [rhs|] eqn:Vb.
  - destruct (bv_value_shape w b rhs Nb Vb) as (_ & [R0 R1] & Zb). rewrite Zb. unfold bv_udiv.
    destruct (Z.eqb_spec rhs 0) as [->|Hr0]; [unfold mask in E; now apply bv_res_mk|].
    destruct (Z.eqb_spec rhs 1) as [->|_]; [inversion E; subst; rewrite Z.div_1_r; now apply bv_res_arg|].
    destruct (bv_value a) as [lhs|] eqn:Va.
    + destruct (bv_value_shape w a lhs Na Va) as (_ & RA & ->).
      rewrite Z.mod_small in E by (apply div_range; auto; lia). now apply bv_res_mk.
    + inversion E; subst. apply bv_res_node; auto; try exact Logic.I. cbn. unfold bv_udiv. now rewrite (proj2 (Z.eqb_neq _ _) Hr0).
  - inversion E; subst. apply bv_res_node; auto; try exact Logic.I.
Qed.
Lemma r_bv_urem_sound w a b r : 0 < w -> bvterm w a -> bvterm w b -> r_bv_urem w a b = Some r ->
  bv_res w r (bv_urem w (bvzI a) (bvzI b)).
Proof.
  intros Hw Na Nb E. unfold r_bv_urem in E.
  destruct (bvterm_eval w a Na) as [_ [A0 A1]].
  destruct (bv_value b) as [rhs|] eqn:Vb.
  - destruct (bv_value_shape w b rhs Nb Vb) as (_ & [R0 R1] & Zb). rewrite Zb. unfold bv_urem.
    destruct (Z.eqb_spec rhs 0) as [->|Hr0]; [inversion E; subst; now apply bv_res_arg|].
    destruct (Z.eqb_spec rhs 1) as [->|_]; [rewrite Z.mod_1_r; now apply bv_res_mk|].
    destruct (bv_value a) as [lhs|] eqn:Va.
    + destruct (bv_value_shape w a lhs Na Va) as (_ & RA & ->). now apply bv_res_mk.
    + inversion E; subst. apply bv_res_node; auto; try exact Logic.I. cbn. unfold bv_urem. now rewrite (proj2 (Z.eqb_neq _ _) Hr0).
  - destruct (bv_value a) as [lhs|] eqn:Va.
    + destruct (bv_value_shape w a lhs Na Va) as (_ & RA & Za). rewrite Za. destruct lhs as [|p|p].
      * unfold bv_urem. replace (if bvzI b =? 0 then 0 else 0 mod bvzI b) with 0 by (rewrite Zmod_0_l; destruct (bvzI b =? 0); reflexivity).
        now apply bv_res_mk.
      * inversion E; subst. rewrite <- Za. apply bv_res_node; auto; try exact Logic.I.
      * inversion E; subst. rewrite <- Za. apply bv_res_node; auto; try exact Logic.I.
    + inversion E; subst. apply bv_res_node; auto; try exact Logic.I.
Qed.
Lemma r_bv_sub_sound w a b r : 0 < w -> bvterm w a -> bvterm w b -> r_bv_sub w a b = Some r ->
  bv_res w r (bvmod w (bvzI a - bvzI b)).
Proof.
  intros Hw Na Nb E. unfold r_bv_sub in E.
  destruct (bvterm_eval w a Na) as [_ [A0 A1]].
  assert (Hs1 : match (if term_eqb a b then Some (mk_bvzero w) else None) with Some r0 => r0 | None => Some (mk_bvop BSub a b) end = Some r ->
                bv_res w r (bvmod w (bvzI a - bvzI b))).
  { clear E. intros E. destruct (term_eqb a b) eqn:Eq.
    - apply term_eqb_sound in Eq. subst b. replace (bvzI a - bvzI a) with 0 by lia.
      unfold bvmod. rewrite Z.mod_0_l by (pose proof (pow2_pos w ltac:(lia)); lia). now apply bv_res_mk.
    - inversion E; subst. apply bv_res_node; auto; try exact Logic.I. }
  destruct (bv_value b) as [rhs|] eqn:Vb; [|exact (Hs1 E)].
  destruct (bv_value_shape w b rhs Nb Vb) as (_ & _ & Zb).
  destruct (Z.eqb_spec rhs 0) as [->|_].
  - inversion E; subst. rewrite Zb. unfold bvmod. rewrite Z.sub_0_r, Z.mod_small by lia. now apply bv_res_arg.
  - destruct (bv_value a) as [lhs|] eqn:Va; [|exact (Hs1 E)].
    destruct (bv_value_shape w a lhs Na Va) as (_ & _ & ->). rewrite Zb. now apply bv_res_mk.
Qed.
Lemma shl_fold v k : 0 <= k -> py_shl v k = v * 2 ^ k.
Proof. intros. unfold py_shl. now apply Z.shiftl_mul_pow2. Qed.
Lemma shr_fold v k : 0 <= k -> py_shr v k = v / 2 ^ k.
Proof. intros. unfold py_shr. now apply Z.shiftr_div_pow2. Qed.
Lemma r_bv_lshl_sound w a b r : 0 < w -> bvterm w a -> bvterm w b -> r_bv_lshl a b = Some r ->
  bv_res w r (bv_shl w (bvzI a) (bvzI b)).
Proof.
  intros Hw Na Nb E. unfold r_bv_lshl, r_bv_shift in E. rewrite (bv_width_ok a w (proj1 Na) (proj2 Na)) in E.
  destruct (bvterm_eval w a Na) as [_ [A0 A1]]. unfold bv_shl.
  destruct (bv_value b) as [rhs|] eqn:Vb.
  - destruct (bv_value_shape w b rhs Nb Vb) as (_ & [R0 R1] & Zb). rewrite Zb.
    destruct (Z.eqb_spec rhs 0) as [->|_].
    { inversion E; subst. rewrite (proj2 (Z.leb_gt w 0)) by lia. unfold bvmod. rewrite Z.mul_1_r, Z.mod_small by (cbn; lia). now apply bv_res_arg. }
    destruct (w <=? rhs) eqn:Ew; [now apply bv_res_mk|].
    destruct (bv_value a) as [v|] eqn:Va.
    + destruct (bv_value_shape w a v Na Va) as (_ & _ & ->). rewrite shl_fold in E by lia. now apply bv_res_mk.
    + inversion E; subst. apply bv_res_node; auto; try exact Logic.I. cbn. unfold bv_shl. now rewrite Ew.
  - destruct (bv_value a) as [v|] eqn:Va.
    + destruct (bv_value_shape w a v Na Va) as (_ & _ & Za). destruct v as [|p|p].
      * inversion E; subst. rewrite Za. replace (if w <=? bvzI b then 0 else bvmod w (0 * 2 ^ bvzI b)) with 0.
        { rewrite <- Za. now apply bv_res_arg. }
        destruct (w <=? bvzI b); auto.
      * inversion E; subst. apply bv_res_node; auto; try exact Logic.I.
      * inversion E; subst. apply bv_res_node; auto; try exact Logic.I.
    + inversion E; subst. apply bv_res_node; auto; try exact Logic.I.
Qed.
Lemma r_bv_lshr_sound w a b r : 0 < w -> bvterm w a -> bvterm w b -> r_bv_lshr a b = Some r ->
  bv_res w r (bv_lshr w (bvzI a) (bvzI b)).
Proof.
  intros Hw Na Nb E. unfold r_bv_lshr, r_bv_shift in E. rewrite (bv_width_ok a w (proj1 Na) (proj2 Na)) in E.
  destruct (bvterm_eval w a Na) as [_ [A0 A1]]. unfold bv_lshr.
  destruct (bv_value b) as [rhs|] eqn:Vb.
  - destruct (bv_value_shape w b rhs Nb Vb) as (_ & [R0 R1] & Zb). rewrite Zb.
    destruct (Z.eqb_spec rhs 0) as [->|_].
    { inversion E; subst. rewrite (proj2 (Z.leb_gt w 0)) by lia. rewrite Z.div_1_r. now apply bv_res_arg. }
    destruct (w <=? rhs) eqn:Ew; [now apply bv_res_mk|].
    destruct (bv_value a) as [v|] eqn:Va.
    + destruct (bv_value_shape w a v Na Va) as (_ & RA & ->). rewrite shr_fold in E by lia.
      rewrite Z.mod_small in E by (apply div_range; auto; apply pow2_pos; lia). now apply bv_res_mk.
    + inversion E; subst. apply bv_res_node; auto; try exact Logic.I. cbn. unfold bv_lshr. now rewrite Ew.
  - destruct (bv_value a) as [v|] eqn:Va.
    + destruct (bv_value_shape w a v Na Va) as (_ & _ & Za). destruct v as [|p|p].
      * inversion E; subst. rewrite Za. replace (if w <=? bvzI b then 0 else 0 / 2 ^ bvzI b) with 0 by (destruct (w <=? bvzI b); auto).
        rewrite <- Za. now apply bv_res_arg.
      * inversion E; subst. apply bv_res_node; auto; try exact Logic.I.
      * inversion E; subst. apply bv_res_node; auto; try exact Logic.I.
    + inversion E; subst. apply bv_res_node; auto; try exact Logic.I.
Qed.
Lemma top_bvc w a v w0 : bvterm w a -> top a = OBVC v w0 -> a = TBVC v w /\ w0 = w /\ in_range w v /\ bvzI a = v.
Proof.
  intros Na Et. assert (Hv : bv_value a = Some v) by (unfold bv_value; now rewrite Et).
  destruct (bv_value_shape w a v Na Hv) as (-> & R & Z). cbn in Et. inversion Et; subst. auto.
Qed.
Lemma r_bv_concat_sound wa wb w a b r : 0 < w -> w = wa + wb -> bvterm wa a -> bvterm wb b ->
  r_bv_concat a b = Some r -> bv_res w r (bvzI a * 2 ^ wb + bvzI b).
Proof.
  intros Hw Ew Na Nb E. unfold r_bv_concat in E.
  assert (Hnode : Some (mk_bvconcat a b) = Some r -> bv_res w r (bvzI a * 2 ^ wb + bvzI b)).
  { clear E. intros E. inversion E; subst. unfold mk_bvconcat.
    rewrite (bv_width_ok a wa (proj1 Na) (proj2 Na)), (bv_width_ok b wb (proj1 Nb) (proj2 Nb)).
    destruct Na as [Oa Ta]. destruct Nb as [Ob Tb]. split; [split|].
    - apply okt_intro; [|repeat constructor; auto]. cbn. now rewrite (proj2 (Z.ltb_lt 0 (wa + wb)) Hw).
    - rewrite tc_tcs. cbn [tcs]. rewrite Ta, Tb. cbn. now rewrite Z.eqb_refl.
    - rewrite eval_plain by reflexivity. cbn [map op_sem].
      destruct (bvterm_eval wa a (conj Oa Ta)) as [-> _]. destruct (bvterm_eval wb b (conj Ob Tb)) as [-> _]. reflexivity. }
  destruct (top a) eqn:Ea; try exact (Hnode E). destruct (top b) eqn:Eb; try exact (Hnode E).
  destruct (top_bvc wa a _ _ Na Ea) as (_ & -> & _ & ->). destruct (top_bvc wb b _ _ Nb Eb) as (_ & -> & _ & ->).
  subst w. replace (v * 2 ^ wb + v0) with (2 ^ wb * v + v0) by lia. rewrite (Z.add_comm wa wb). apply bv_res_mk; [lia | exact E].
Qed.
Lemma r_bv_comp_sound wa a b r : bvterm wa a -> bvterm wa b -> r_bv_comp a b = Some r ->
  bv_res 1 r (if bvzI a =? bvzI b then 1 else 0).
Proof.
  intros Na Nb E. unfold r_bv_comp in E. destruct (term_eqb a b) eqn:Eq.
  - apply term_eqb_sound in Eq. subst b. rewrite Z.eqb_refl. apply bv_res_mk; auto; lia.
  - destruct (is_bv_constant a && is_bv_constant b) eqn:C.
    + apply andb_true_iff in C. destruct C as [Ca Cb]. unfold is_bv_constant in Ca, Cb.
      destruct (top a) eqn:Ea; try discriminate. destruct (top b) eqn:Eb; try discriminate.
      destruct (top_bvc wa a _ _ Na Ea) as (-> & _ & _ & ->). destruct (top_bvc wa b _ _ Nb Eb) as (-> & _ & _ & ->).
      destruct (Z.eqb_spec v v0) as [->|_]; [rewrite (proj2 (term_eqb_eq _ _) eq_refl) in Eq; discriminate|].
      apply bv_res_mk; auto; lia.
    + inversion E; subst. unfold mk_bvcomp. destruct Na as [Oa Ta]. destruct Nb as [Ob Tb]. split; [split|].
      * apply okt_intro; [reflexivity | repeat constructor; auto].
      * rewrite tc_tcs. cbn [tcs]. rewrite Ta, Tb. cbn. now rewrite Z.eqb_refl.
      * rewrite eval_plain by reflexivity. cbn [map op_sem].
        destruct (bvterm_eval wa a (conj Oa Ta)) as [-> _]. destruct (bvterm_eval wa b (conj Ob Tb)) as [-> _]. reflexivity.
Qed.
Lemma bterm_bvrel k wa a b : (k = BUlt \/ k = BUle) -> bvterm wa a -> bvterm wa b -> bterm (T (OBVRel k) [a; b]).
Proof.
  intros Hk [Oa Ta] [Ob Tb]. split.
  - apply okt_intro; [destruct Hk as [-> | ->]; reflexivity | repeat constructor; auto].
  - rewrite tc_tcs. cbn [tcs]. rewrite Ta, Tb. cbn. now rewrite Z.eqb_refl.
Qed.
Lemma r_bv_ult_sound wa a b r : bvterm wa a -> bvterm wa b -> r_bv_ult a b = Some r ->
  bterm r /\ bv I r = (bvzI a <? bvzI b).
Proof.
  intros Na Nb E. unfold r_bv_ult in E.
  destruct (bvterm_eval wa a Na) as [Ea [A0 A1]]. destruct (bvterm_eval wa b Nb) as [Eb [B0 B1]].
  assert (Hnode : bterm (mk_bvrel BUlt a b) /\ bv I (mk_bvrel BUlt a b) = (bvzI a <? bvzI b)).
  { split; [apply (bterm_bvrel BUlt wa); auto|]. unfold bv, mk_bvrel. rewrite eval_plain by reflexivity. cbn [map op_sem]. now rewrite Ea, Eb. }
  destruct (term_eqb a b) eqn:Eq.
  - apply term_eqb_sound in Eq. subst b. inversion E; subst. split; [apply bterm_TBoolC|]. rewrite Z.ltb_irrefl. reflexivity.
  - destruct (bv_value b) as [rhs|] eqn:Vb.
    + destruct (bv_value_shape wa b rhs Nb Vb) as (_ & _ & Zb). rewrite Zb.
      destruct (Z.eqb_spec rhs 0) as [->|_].
      { inversion E; subst. split; [apply bterm_TBoolC|]. cbn. symmetry. apply Z.ltb_ge. lia. }
      destruct (bv_value a) as [lhs|] eqn:Va.
      * destruct (bv_value_shape wa a lhs Na Va) as (_ & _ & ->). inversion E; subst. split; [apply bterm_TBoolC | reflexivity].
      * inversion E; subst. exact Hnode.
    + inversion E; subst. exact Hnode.
Qed.
Lemma r_bv_ule_sound wa a b r : bvterm wa a -> bvterm wa b -> r_bv_ule a b = Some r ->
  bterm r /\ bv I r = (bvzI a <=? bvzI b).
Proof.
  intros Na Nb E. unfold r_bv_ule in E.
  destruct (bvterm_eval wa a Na) as [Ea [A0 A1]]. destruct (bvterm_eval wa b Nb) as [Eb [B0 B1]].
  assert (Hnode : bterm (mk_bvrel BUle a b) /\ bv I (mk_bvrel BUle a b) = (bvzI a <=? bvzI b)).
  { split; [apply (bterm_bvrel BUle wa); auto|]. unfold bv, mk_bvrel. rewrite eval_plain by reflexivity. cbn [map op_sem]. now rewrite Ea, Eb. }
  destruct (term_eqb a b) eqn:Eq.
  - apply term_eqb_sound in Eq. subst b. inversion E; subst. split; [apply bterm_TBoolC|]. rewrite Z.leb_refl. reflexivity.
  - destruct (bv_value a) as [lhs|] eqn:Va.
    + destruct (bv_value_shape wa a lhs Na Va) as (_ & _ & Za). rewrite Za.
      destruct (Z.eqb_spec lhs 0) as [->|_].
      { inversion E; subst. split; [apply bterm_TBoolC|]. cbn. symmetry. apply Z.leb_le. lia. }
      destruct (bv_value b) as [rhs|] eqn:Vb.
      * destruct (bv_value_shape wa b rhs Nb Vb) as (_ & _ & ->). inversion E; subst. split; [apply bterm_TBoolC | reflexivity].
      * inversion E; subst. exact Hnode.
    + inversion E; subst. exact Hnode.
Qed.
Lemma r_bv_tonatural_sound wa a r : bvterm wa a -> r_bv_tonatural a = Some r ->
  nterm TInt r /\ eval I r = VInt (bvzI a).
Proof.
  intros Na E. unfold r_bv_tonatural in E. destruct (bvterm_eval wa a Na) as [Ea _].
  destruct (bv_value a) as [v|] eqn:Va.
  - destruct (bv_value_shape wa a v Na Va) as (_ & _ & ->). inversion E; subst. split; [split; reflexivity | reflexivity].
  - inversion E; subst. destruct Na as [Oa Ta]. split; [split|].
    + apply okt_intro; [reflexivity | repeat constructor; auto].
    + rewrite tc_tcs. cbn [tcs]. rewrite Ta. reflexivity.
    + rewrite eval_plain by reflexivity. cbn [map op_sem]. now rewrite Ea.
Qed.
(* ------------------------------------------------------------------ signed operators *)
Lemma bv_res_bvz w r x : bv_res w r x -> bvterm w r /\ bvzI r = x.
Proof. intros [N E]. split; auto. unfold bvz. now rewrite E. Qed.
Lemma bvc_pos v w : okt (TBVC v w) = true -> 0 < w.
Proof. intros H. apply okt_node in H. cbn in H. apply andb_true_iff in H. destruct H as [H _]. apply andb_true_iff in H. destruct H as [H _]. now apply Z.ltb_lt. Qed.
Lemma bv_signed_shape w a s : bvterm w a -> bv_signed_value a = Some s ->
  a = TBVC (bvzI a) w /\ 0 < w /\ in_range w (bvzI a) /\ s = to_signed w (bvzI a).
Proof.
  intros Na E. unfold bv_signed_value in E. destruct (top a) eqn:Et; try discriminate. inversion E; subst.
  destruct (top_bvc w a _ _ Na Et) as (Ea & -> & R & Z). rewrite Z. rewrite Ea in Na.
  pose proof (bvc_pos _ _ (proj1 Na)) as Hw. repeat split; try apply R; auto. now apply twos_complement_signed.
Qed.
Lemma bv_signed_none a : bv_signed_value a = None -> bv_value a = None.
Proof. unfold bv_signed_value, bv_value. destruct (top a); auto; discriminate. Qed.
Lemma r_bv_slt_sound wa a b r : bvterm wa a -> bvterm wa b -> r_bv_scmp BSlt Z.ltb false a b = Some r ->
  bterm r /\ bv I r = Z.ltb (to_signed wa (bvzI a)) (to_signed wa (bvzI b)).
Proof.
  intros Na Nb E. unfold r_bv_scmp in E.
  assert (Hnode : bterm (mk_bvrel BSlt a b) /\ bv I (mk_bvrel BSlt a b) = Z.ltb (to_signed wa (bvzI a)) (to_signed wa (bvzI b))).
  { destruct Na as [Oa Ta]. destruct Nb as [Ob Tb]. unfold mk_bvrel. split; [split|].
    - apply okt_intro; [reflexivity | repeat constructor; auto].
    - rewrite tc_tcs. cbn [tcs]. rewrite Ta, Tb. cbn. now rewrite Z.eqb_refl.
    - unfold bv. rewrite eval_plain by reflexivity. cbn [map op_sem].
      destruct (bvterm_eval wa a (conj Oa Ta)) as [-> _]. destruct (bvterm_eval wa b (conj Ob Tb)) as [-> _]. reflexivity. }
  assert (Hrest : (if term_eqb a b then Some (mk_bool false) else Some (mk_bvrel BSlt a b)) = Some r ->
                  bterm r /\ bv I r = Z.ltb (to_signed wa (bvzI a)) (to_signed wa (bvzI b))).
  { intros E'. destruct (term_eqb a b) eqn:Eq.
    - apply term_eqb_sound in Eq. subst b. inversion E'; subst. split; [apply bterm_TBoolC|]. rewrite bv_TBoolC. symmetry. apply Z.ltb_irrefl.
    - inversion E'; subst. exact Hnode. }
  destruct (bv_signed_value a) as [sa|] eqn:Sa; [destruct (bv_signed_value b) as [sb|] eqn:Sb|]; try exact (Hrest E).
  destruct (bv_signed_shape wa a sa Na Sa) as (_ & _ & _ & ->). destruct (bv_signed_shape wa b sb Nb Sb) as (_ & _ & _ & ->).
  inversion E; subst. split; [apply bterm_TBoolC | reflexivity].
Qed.
Lemma r_bv_sle_sound wa a b r : bvterm wa a -> bvterm wa b -> r_bv_scmp BSle Z.leb true a b = Some r ->
  bterm r /\ bv I r = Z.leb (to_signed wa (bvzI a)) (to_signed wa (bvzI b)).
Proof.
  intros Na Nb E. unfold r_bv_scmp in E.
  assert (Hnode : bterm (mk_bvrel BSle a b) /\ bv I (mk_bvrel BSle a b) = Z.leb (to_signed wa (bvzI a)) (to_signed wa (bvzI b))).
  { destruct Na as [Oa Ta]. destruct Nb as [Ob Tb]. unfold mk_bvrel. split; [split|].
    - apply okt_intro; [reflexivity | repeat constructor; auto].
    - rewrite tc_tcs. cbn [tcs]. rewrite Ta, Tb. cbn. now rewrite Z.eqb_refl.
    - unfold bv. rewrite eval_plain by reflexivity. cbn [map op_sem].
      destruct (bvterm_eval wa a (conj Oa Ta)) as [-> _]. destruct (bvterm_eval wa b (conj Ob Tb)) as [-> _]. reflexivity. }
  assert (Hrest : (if term_eqb a b then Some (mk_bool true) else Some (mk_bvrel BSle a b)) = Some r ->
                  bterm r /\ bv I r = Z.leb (to_signed wa (bvzI a)) (to_signed wa (bvzI b))).
  { intros E'. destruct (term_eqb a b) eqn:Eq.
    - apply term_eqb_sound in Eq. subst b. inversion E'; subst. split; [apply bterm_TBoolC|]. rewrite bv_TBoolC. symmetry. apply Z.leb_refl.
    - inversion E'; subst. exact Hnode. }
  destruct (bv_signed_value a) as [sa|] eqn:Sa; [destruct (bv_signed_value b) as [sb|] eqn:Sb|]; try exact (Hrest E).
  destruct (bv_signed_shape wa a sa Na Sa) as (_ & _ & _ & ->). destruct (bv_signed_shape wa b sb Nb Sb) as (_ & _ & _ & ->).
  inversion E; subst. split; [apply bterm_TBoolC | reflexivity].
Qed.
Lemma neg_c_sound w a r : 0 < w -> bvterm w a -> neg_c a = Some r -> bvterm w r /\ bvzI r = bv_neg w (bvzI a).
Proof.
  intros Hw Na E. unfold neg_c in E. rewrite (bv_width_ok a w (proj1 Na) (proj2 Na)) in E.
  apply bv_res_bvz. now apply r_bv_neg_sound.
Qed.
Lemma udiv_c_sound w a b r : 0 < w -> bvterm w a -> bvterm w b -> r_bv_udiv (bv_width a) a b = Some r ->
  bvterm w r /\ bvzI r = bv_udiv w (bvzI a) (bvzI b).
Proof.
  intros Hw Na Nb E. rewrite (bv_width_ok a w (proj1 Na) (proj2 Na)) in E. apply bv_res_bvz. now apply r_bv_udiv_sound.
Qed.
Lemma urem_c_sound w a b r : 0 < w -> bvterm w a -> bvterm w b -> r_bv_urem (bv_width a) a b = Some r ->
  bvterm w r /\ bvzI r = bv_urem w (bvzI a) (bvzI b).
Proof.
  intros Hw Na Nb E. rewrite (bv_width_ok a w (proj1 Na) (proj2 Na)) in E. apply bv_res_bvz. now apply r_bv_urem_sound.
Qed.
Lemma bv_res_of w r x : bvterm w r -> bvzI r = x -> bv_res w r x.
Proof. intros N E. split; auto. destruct (bvterm_eval w r N) as [Ev _]. now rewrite Ev, E. Qed.

Lemma r_bv_sdiv_sound w a b r : 0 < w -> bvterm w a -> bvterm w b -> r_bv_sdiv a b = Some r ->
  bv_res w r (bv_sdiv w (bvzI a) (bvzI b)).
Proof.
  intros Hw Na Nb E. unfold r_bv_sdiv in E.
  assert (Hnode : Some (mk_bvop BSdiv a b) = Some r -> bv_res w r (bv_sdiv w (bvzI a) (bvzI b))).
  { intros E'. inversion E'; subst. apply bv_res_node; auto; exact Logic.I. }
  destruct (bv_signed_value a) as [sa|] eqn:Sa; [|exact (Hnode E)].
  destruct (bv_signed_value b) as [sb|] eqn:Sb; [|exact (Hnode E)].
  destruct (bv_signed_shape w a sa Na Sa) as (_ & _ & Ra & ->). destruct (bv_signed_shape w b sb Nb Sb) as (_ & _ & Rb & ->).
  rewrite (signed_neg_msb w _ Hw Ra), (signed_neg_msb w _ Hw Rb) in E. unfold bv_sdiv. unfold Simplifier.bind in E.
  destruct (msb w (bvzI a)), (msb w (bvzI b)); cbn [negb andb] in E.
  - destruct (neg_c a) as [nl|] eqn:E1; [|discriminate]. destruct (neg_c b) as [nr|] eqn:E2; [|discriminate].
    destruct (neg_c_sound w a nl Hw Na E1) as [Nl Zl]. destruct (neg_c_sound w b nr Hw Nb E2) as [Nr Zr].
    destruct (udiv_c_sound w nl nr r Hw Nl Nr E) as [N Z]. apply bv_res_of; auto. now rewrite Z, Zl, Zr.
  - destruct (neg_c a) as [nl|] eqn:E1; [|discriminate]. destruct (neg_c_sound w a nl Hw Na E1) as [Nl Zl].
    destruct (r_bv_udiv (bv_width nl) nl b) as [dv|] eqn:E2; [|discriminate].
    destruct (udiv_c_sound w nl b dv Hw Nl Nb E2) as [Nd Zd]. destruct (neg_c_sound w dv r Hw Nd E) as [N Z].
    apply bv_res_of; auto. now rewrite Z, Zd, Zl.
  - destruct (neg_c b) as [nr|] eqn:E1; [|discriminate]. destruct (neg_c_sound w b nr Hw Nb E1) as [Nr Zr].
    destruct (r_bv_udiv (bv_width a) a nr) as [dv|] eqn:E2; [|discriminate].
    destruct (udiv_c_sound w a nr dv Hw Na Nr E2) as [Nd Zd]. destruct (neg_c_sound w dv r Hw Nd E) as [N Z].
    apply bv_res_of; auto. now rewrite Z, Zd, Zr.
  - destruct (udiv_c_sound w a b r Hw Na Nb E) as [N Z]. apply bv_res_of; auto.
Qed.
Lemma r_bv_srem_sound w a b r : 0 < w -> bvterm w a -> bvterm w b -> r_bv_srem a b = Some r ->
  bv_res w r (bv_srem w (bvzI a) (bvzI b)).
Proof.
  intros Hw Na Nb E. unfold r_bv_srem in E.
  assert (Hnode : Some (mk_bvop BSrem a b) = Some r -> bv_res w r (bv_srem w (bvzI a) (bvzI b))).
  { intros E'. inversion E'; subst. apply bv_res_node; auto; exact Logic.I. }
  destruct (bv_signed_value a) as [sa|] eqn:Sa; [|exact (Hnode E)].
  destruct (bv_signed_value b) as [sb|] eqn:Sb; [|exact (Hnode E)].
  destruct (bv_signed_shape w a sa Na Sa) as (_ & _ & Ra & ->). destruct (bv_signed_shape w b sb Nb Sb) as (_ & _ & Rb & ->).
  rewrite (signed_neg_msb w _ Hw Ra), (signed_neg_msb w _ Hw Rb) in E. unfold bv_srem. unfold Simplifier.bind in E.
  destruct (msb w (bvzI a)), (msb w (bvzI b)).
  - destruct (neg_c a) as [nl|] eqn:E1; [|discriminate]. destruct (neg_c b) as [nr|] eqn:E2; [|discriminate].
    destruct (neg_c_sound w a nl Hw Na E1) as [Nl Zl]. destruct (neg_c_sound w b nr Hw Nb E2) as [Nr Zr].
    destruct (r_bv_urem (bv_width nl) nl nr) as [rm|] eqn:E3; [|discriminate].
    destruct (urem_c_sound w nl nr rm Hw Nl Nr E3) as [Nm Zm]. destruct (neg_c_sound w rm r Hw Nm E) as [N Z].
    apply bv_res_of; auto. now rewrite Z, Zm, Zl, Zr.
  - destruct (neg_c a) as [nl|] eqn:E1; [|discriminate]. destruct (neg_c_sound w a nl Hw Na E1) as [Nl Zl].
    destruct (r_bv_urem (bv_width nl) nl b) as [rm|] eqn:E3; [|discriminate].
    destruct (urem_c_sound w nl b rm Hw Nl Nb E3) as [Nm Zm]. destruct (neg_c_sound w rm r Hw Nm E) as [N Z].
    apply bv_res_of; auto. now rewrite Z, Zm, Zl.
  - destruct (neg_c b) as [nr|] eqn:E2; [|discriminate]. destruct (neg_c_sound w b nr Hw Nb E2) as [Nr Zr].
    destruct (r_bv_urem (bv_width a) a nr) as [rm|] eqn:E3; [|discriminate].
    destruct (urem_c_sound w a nr rm Hw Na Nr E3) as [Nm Zm]. inversion E; subst. apply bv_res_of; auto. now rewrite Zm, Zr.
  - destruct (r_bv_urem (bv_width a) a b) as [rm|] eqn:E3; [|discriminate].
    destruct (urem_c_sound w a b rm Hw Na Nb E3) as [Nm Zm]. inversion E; subst. apply bv_res_of; auto.
Qed.
Lemma r_bv_ashr_sound w a b r : 0 < w -> bvterm w a -> bvterm w b -> r_bv_ashr w a b = Some r ->
  bv_res w r (bv_ashr w (bvzI a) (bvzI b)).
Proof.
  intros Hw Na Nb E. unfold r_bv_ashr in E.
  assert (Hnode : Some (mk_bvop BAshr a b) = Some r -> bv_res w r (bv_ashr w (bvzI a) (bvzI b))).
  { intros E'. inversion E'; subst. apply bv_res_node; auto; exact Logic.I. }
  destruct (bv_signed_value a) as [sa|] eqn:Sa; [|exact (Hnode E)].
  destruct (bv_value b) as [rv|] eqn:Vb; [|exact (Hnode E)].
  destruct (bv_signed_shape w a sa Na Sa) as (_ & _ & Ra & ->). destruct (bv_value_shape w b rv Nb Vb) as (_ & [R0 R1] & Zb).
  rewrite (signed_neg_msb w _ Hw Ra) in E. unfold Simplifier.bind in E.
  destruct (r_bv_lshr a b) as [ret|] eqn:El; [|discriminate].
  destruct (bv_res_bvz w ret _ (r_bv_lshr_sound w a b ret Hw Na Nb El)) as [Nret Zret].
  pose proof Ra as [A0 A1]. rewrite Zb in *. unfold bv_ashr, to_signed. unfold msb in E.
  assert (Hp1 : 0 < 2 ^ (w - 1)) by (apply pow2_pos; lia). assert (Hpw : 0 < 2 ^ w) by (apply pow2_pos; lia).
  assert (E2 : 2 ^ w = 2 * 2 ^ (w - 1)) by (rewrite <- Z.pow_succ_r by lia; f_equal; lia).
  set (k := Z.min rv w). assert (Hk : 0 <= k <= w) by (unfold k; lia).
  assert (Hpk : 0 < 2 ^ k) by (apply pow2_pos; lia).
  assert (Hlshr : bv_lshr w (bvzI a) rv = bvzI a / 2 ^ k).
  { unfold bv_lshr, k. destruct (Z.leb_spec w rv).
    - rewrite Z.min_r by lia. symmetry. apply Z.div_small. lia.
    - now rewrite Z.min_l by lia. }
  destruct (Z.leb_spec (2 ^ (w - 1)) (bvzI a)) as [Hneg|Hpos].
  - (* negative: the top bits are set *)
    rewrite (proj2 (Z.ltb_ge (bvzI a) (2 ^ (w - 1))) Hneg).
    destruct (bv_value ret) as [n|] eqn:Vr; [|discriminate].
    destruct (bv_value_shape w ret n Nret Vr) as (_ & _ & Zn). rewrite Zret, Hlshr in Zn. subst n.
    assert (Hpad : (if rv <? w then rv else w) = k).
    { unfold k. destruct (Z.ltb_spec rv w); [now rewrite Z.min_l by lia | now rewrite Z.min_r by lia]. }
    rewrite Hpad in E. unfold zrange in E. replace (w - (w - k)) with k in E by lia.
    assert (Hq : 0 <= bvzI a / 2 ^ k < 2 ^ (w - k)).
    { split; [apply Z.div_pos; lia|]. apply Z.div_lt_upper_bound; [lia|]. rewrite <- Z.pow_add_r by lia. replace (k + (w - k)) with w by lia. lia. }
    rewrite (set_bits_range (w - k) (bvzI a / 2 ^ k) ltac:(lia) Hq (Z.to_nat k)) in E.
    rewrite Z2Nat.id in E by lia. replace (w - k + k) with w in E by lia.
    rewrite (ashr_neg_fold w (bvzI a) k Hw Ra Hk) in E. now apply bv_res_mk.
  - rewrite (proj2 (Z.ltb_lt (bvzI a) (2 ^ (w - 1))) Hpos). inversion E; subst.
    apply bv_res_of; auto. rewrite Zret, Hlshr. unfold bvmod. symmetry. apply Z.mod_small.
    split; [apply Z.div_pos; lia|]. apply Z.le_lt_trans with (bvzI a); [|lia]. apply Z.div_le_upper_bound; [lia|]. nia.
Qed.
(* ------------------------------------------------------------------ extract, rotate, extend *)
Lemma const_bits w a : bvterm w a -> is_bv_constant a = true ->
  exists v, a = TBVC v w /\ in_range w v /\ 0 < w /\ bvzI a = v /\ bv_bin_str a = Some (bits_msb (Z.to_nat w) v).
Proof.
  intros Na C. unfold is_bv_constant in C. destruct (top a) eqn:Et; try discriminate.
  destruct (top_bvc w a _ _ Na Et) as (Ea & -> & R & Z). exists v. rewrite Ea in Na. pose proof (bvc_pos _ _ (proj1 Na)) as Hw.
  repeat split; try apply R; auto. rewrite Ea. cbn. f_equal. apply bin_str_fits; auto.
Qed.
Lemma zlen_bits n v : zlen (bits_msb n v) = Z.of_nat n.
Proof. unfold zlen. now rewrite bits_msb_length. Qed.
Lemma mk_bv_bits_rev X w r : X <> [] -> mk_bv_bits (rev X) w = Some r ->
  (match w with Some w' => w' = zlen X | None => True end) /\ mk_bv (lsb_val X) (zlen X) = Some r.
Proof.
  intros HX E. unfold mk_bv_bits in E. rewrite (int_of_bits_rev X HX) in E.
  assert (Hl : zlen (rev X) = zlen X) by (unfold zlen; now rewrite rev_length). rewrite Hl in E.
  destruct w as [w'|]; [|auto]. destruct (Z.eqb_spec w' (zlen X)); [auto | discriminate].
Qed.
Lemma lsb_bits_nonempty n v : (0 < n)%nat -> lsb_bits n v <> [].
Proof. intros Hn H. apply (f_equal (@List.length bool)) in H. rewrite lsb_bits_length in H. cbn in H. lia. Qed.

Lemma r_bv_extract_sound wa s e a r : bvterm wa a -> 0 <= s -> s <= e -> e < wa ->
  r_bv_extract s e a = Some r -> bv_res (e - s + 1) r (bv_extract (bvzI a) s e).
Proof.
  intros Na Hs Hse He E. unfold r_bv_extract in E. destruct (is_bv_constant a) eqn:C.
  - destruct (const_bits wa a Na C) as (v & -> & [V0 V1] & Hw & Zv & Hb). rewrite Hb in E. unfold Simplifier.bind in E. rewrite Zv.
    unfold py_reverse in E. rewrite rev_bits_msb in E.
    assert (HL : zlen (lsb_bits (Z.to_nat wa) v) = wa) by (unfold zlen; rewrite lsb_bits_length; apply Z2Nat.id; lia).
    rewrite py_slice_in in E by (rewrite ?HL; lia).
    assert (Hm1 : (Z.to_nat s <= Z.to_nat wa)%nat) by (apply Z2Nat.inj_le; lia).
    assert (Hm2 : (Z.to_nat (e + 1 - s) <= Z.to_nat wa - Z.to_nat s)%nat) by (rewrite <- Z2Nat.inj_sub by lia; apply Z2Nat.inj_le; lia).
    assert (Hm3 : (0 < Z.to_nat (e + 1 - s))%nat) by (apply (Z2Nat.inj_lt 0); lia).
    rewrite lsb_bits_skip in E by (auto; lia). rewrite lsb_bits_first in E by exact Hm2. rewrite Z2Nat.id in E by lia.
    destruct (mk_bv_bits_rev _ _ _ (lsb_bits_nonempty _ _ Hm3) E) as [_ E'].
    unfold zlen in E'. rewrite lsb_bits_length, Z2Nat.id in E' by lia.
    rewrite lsb_val_bits in E' by (apply Z.div_pos; [lia | apply pow2_pos; lia]). rewrite Z2Nat.id in E' by lia.
    replace (e + 1 - s) with (e - s + 1) in E' by lia. apply bv_res_mk; auto. lia.
  - unfold mk_bvextract in E. rewrite (bv_width_ok a wa (proj1 Na) (proj2 Na)) in E.
    rewrite (proj2 (Z.ltb_ge e s)) in E by lia. rewrite (proj2 (Z.ltb_ge s 0)) in E by lia. cbn [orb] in E.
    rewrite (proj2 (Z.ltb_ge wa (e - s + 1))) in E by lia. inversion E; subst. destruct Na as [Oa Ta].
    assert (Tc : tc (T (OBVExtract (e - s + 1) s e) [a]) = Some (TBV (e - s + 1))).
    { rewrite tc_tcs. cbn [tcs]. rewrite Ta. cbn.
      assert (H1 : (s >=? wa) = false) by (rewrite Z.geb_leb; apply Z.leb_gt; lia).
      assert (H2 : (e >=? wa) = false) by (rewrite Z.geb_leb; apply Z.leb_gt; lia).
      rewrite H1, H2. cbn [orb]. rewrite (proj2 (Z.ltb_ge wa (e - s + 1))) by lia. rewrite Z.eqb_refl. reflexivity. }
    split; [split; auto|].
    + apply okt_intro; [|repeat constructor; auto]. cbn. rewrite (proj2 (Z.leb_le 0 s)), (proj2 (Z.leb_le s e)) by lia. reflexivity.
    + rewrite eval_plain by reflexivity. cbn [map op_sem]. destruct (bvterm_eval wa a (conj Oa Ta)) as [-> _]. reflexivity.
Qed.
Lemma zlen_lsb n v : zlen (lsb_bits n v) = Z.of_nat n.
Proof. unfold zlen. now rewrite lsb_bits_length. Qed.
Lemma bvterm_rot (mk : Z -> Z -> op) w k a : (mk = OBVRol \/ mk = OBVRor) -> 0 < w -> 0 <= k <= w -> bvterm w a -> bvterm w (T (mk w k) [a]).
Proof.
  intros Hm Hw Hk [Oa Ta]. split.
  - apply okt_intro; [|repeat constructor; auto]. destruct Hm as [-> | ->]; cbn; now rewrite (proj2 (Z.ltb_lt 0 w) Hw).
  - rewrite tc_tcs. cbn [tcs]. rewrite Ta. destruct Hm as [-> | ->]; cbn;
      rewrite (proj2 (Z.ltb_ge w k)), (proj2 (Z.ltb_ge w 0)), (proj2 (Z.ltb_ge k 0)) by lia; cbn; now rewrite Z.eqb_refl.
Qed.
(* value of the concatenation of two runs of bits of v *)
Lemma r_bv_ror_sound w k a r : 0 < w -> 0 <= k <= w -> bvterm w a -> r_bv_ror k a = Some r ->
  bv_res w r (bv_ror w (bvzI a) k).
Proof.
  intros Hw Hk Na E. unfold r_bv_ror in E. destruct (is_bv_constant a) eqn:C.
  - destruct (const_bits w a Na C) as (v & -> & [V0 V1] & _ & Zv & Hb). rewrite Hb in E. unfold Simplifier.bind in E. rewrite Zv.
    unfold py_reverse in E. rewrite rev_bits_msb in E.
    assert (HL : zlen (lsb_bits (Z.to_nat w) v) = w) by (rewrite zlen_lsb; apply Z2Nat.id; lia).
    rewrite py_slice_in in E by (rewrite ?HL; lia). rewrite py_slice_from in E by (rewrite HL; lia).
    cbn [skipn Z.to_nat] in E. rewrite Z.sub_0_r in E.
    assert (Hm1 : (Z.to_nat k <= Z.to_nat w)%nat) by (apply Z2Nat.inj_le; lia).
    rewrite lsb_bits_first, lsb_bits_skip in E by (auto; lia). rewrite Z2Nat.id in E by lia.
    assert (HX : lsb_bits (Z.to_nat w - Z.to_nat k) (v / 2 ^ k) ++ lsb_bits (Z.to_nat k) v <> []).
    { intros H. apply (f_equal (@List.length bool)) in H. rewrite app_length, !lsb_bits_length in H. cbn in H.
      assert (0 < Z.to_nat w)%nat by (apply (Z2Nat.inj_lt 0); lia). lia. }
    destruct (mk_bv_bits_rev _ _ _ HX E) as [_ E'].
    assert (Hlen : zlen (lsb_bits (Z.to_nat w - Z.to_nat k) (v / 2 ^ k) ++ lsb_bits (Z.to_nat k) v) = w).
    { unfold zlen. rewrite app_length, !lsb_bits_length. rewrite Nat2Z.inj_add, Nat2Z.inj_sub, !Z2Nat.id by lia. lia. }
    rewrite Hlen in E'. rewrite lsb_val_app, lsb_bits_length in E'.
    assert (Hpk : 0 < 2 ^ k) by (apply pow2_pos; lia).
    rewrite !lsb_val_bits in E' by (try lia; apply Z.div_pos; lia).
    rewrite Nat2Z.inj_sub, !Z2Nat.id in E' by lia.
    assert (Hq : 0 <= v / 2 ^ k < 2 ^ (w - k)).
    { split; [apply Z.div_pos; lia|]. apply Z.div_lt_upper_bound; [lia|]. rewrite <- Z.pow_add_r by lia. replace (k + (w - k)) with w by lia. lia. }
    rewrite (Z.mod_small (v / 2 ^ k)) in E' by lia.
    rewrite (ror_val w v k Hw (conj V0 V1) Hk). now apply bv_res_mk.
  - inversion E; subst. unfold mk_bvror. rewrite (bv_width_ok a w (proj1 Na) (proj2 Na)).
    split; [apply (bvterm_rot OBVRor); auto|]. rewrite eval_plain by reflexivity. cbn [map op_sem].
    destruct (bvterm_eval w a Na) as [-> _]. reflexivity.
Qed.
Lemma py_slice_neg_to {A} (s : list A) k : 0 < k <= zlen s -> py_slice s (Some 0) (Some (- k)) = firstn (Z.to_nat (zlen s - k)) s.
Proof.
  intros Hk. unfold py_slice, norm_idx. cbn [Z.ltb Z.compare].
  rewrite (proj2 (Z.ltb_ge (zlen s) 0)) by (unfold zlen; lia).
  rewrite (proj2 (Z.ltb_lt (- k) 0)) by lia. rewrite (proj2 (Z.ltb_ge (- k + zlen s) 0)) by lia.
  destruct (Z.ltb_spec 0 (- k + zlen s)).
  - cbn [Z.to_nat skipn]. f_equal. f_equal. lia.
  - replace (zlen s - k) with 0 by lia. reflexivity.
Qed.
Lemma py_slice_neg_from {A} (s : list A) k : 0 < k <= zlen s -> py_slice s (Some (- k)) None = skipn (Z.to_nat (zlen s - k)) s.
Proof.
  intros Hk. unfold py_slice, norm_idx.
  rewrite (proj2 (Z.ltb_lt (- k) 0)) by lia. rewrite (proj2 (Z.ltb_ge (- k + zlen s) 0)) by lia.
  rewrite (proj2 (Z.ltb_lt (- k + zlen s) (zlen s))) by lia.
  replace (- k + zlen s) with (zlen s - k) by lia. apply firstn_all2. rewrite skipn_length. unfold zlen in *. lia.
Qed.
Lemma r_bv_rol_sound w k a r : 0 < w -> 0 <= k <= w -> bvterm w a -> r_bv_rol k a = Some r ->
  bv_res w r (bv_rol w (bvzI a) k).
Proof.
  intros Hw Hk Na E. unfold r_bv_rol in E. destruct (is_bv_constant a) eqn:C.
  - destruct (const_bits w a Na C) as (v & -> & [V0 V1] & _ & Zv & Hb). rewrite Hb in E. unfold Simplifier.bind in E. rewrite Zv.
    unfold py_reverse in E. rewrite rev_bits_msb in E.
    assert (HL : zlen (lsb_bits (Z.to_nat w) v) = w) by (rewrite zlen_lsb; apply Z2Nat.id; lia).
    assert (Hnw : (0 < Z.to_nat w)%nat) by (apply (Z2Nat.inj_lt 0); lia).
    destruct (Z.eq_dec k 0) as [->|Hk0].
    + (* no rotation: bitstr[0:-0] is empty, bitstr[-0:] is everything *)
      cbn [Z.opp] in E. rewrite py_slice_in in E by (rewrite ?HL; lia). rewrite py_slice_from in E by (rewrite HL; lia).
      cbn [Z.to_nat Z.sub firstn skipn] in E. rewrite app_nil_r in E.
      destruct (mk_bv_bits_rev _ _ _ (lsb_bits_nonempty _ _ Hnw) E) as [_ E']. rewrite HL in E'.
      rewrite lsb_val_bits, Z2Nat.id in E' by lia. rewrite Z.mod_small in E' by lia.
      destruct (rol_val w v 0 Hw (conj V0 V1) ltac:(lia)) as [-> _].
      rewrite Z.sub_0_r, Z.pow_0_r, Z.mul_1_l, Z.div_small, Z.mod_small by lia. now apply bv_res_mk.
    + rewrite py_slice_neg_to, py_slice_neg_from in E by (rewrite HL; lia). rewrite HL in E.
      assert (Hm1 : (Z.to_nat (w - k) <= Z.to_nat w)%nat) by (apply Z2Nat.inj_le; lia).
      rewrite lsb_bits_first, lsb_bits_skip in E by (auto; lia). rewrite Z2Nat.id in E by lia.
      assert (HX : lsb_bits (Z.to_nat w - Z.to_nat (w - k)) (v / 2 ^ (w - k)) ++ lsb_bits (Z.to_nat (w - k)) v <> []).
      { intros H. apply (f_equal (@List.length bool)) in H. rewrite app_length, !lsb_bits_length in H. cbn in H. lia. }
      destruct (mk_bv_bits_rev _ _ _ HX E) as [_ E'].
      assert (Hlen : zlen (lsb_bits (Z.to_nat w - Z.to_nat (w - k)) (v / 2 ^ (w - k)) ++ lsb_bits (Z.to_nat (w - k)) v) = w).
      { unfold zlen. rewrite app_length, !lsb_bits_length. rewrite Nat2Z.inj_add, Nat2Z.inj_sub, !Z2Nat.id by lia. lia. }
      rewrite Hlen in E'. rewrite lsb_val_app, lsb_bits_length in E'.
      assert (Hpd : 0 < 2 ^ (w - k)) by (apply pow2_pos; lia).
      rewrite !lsb_val_bits in E' by (try lia; apply Z.div_pos; lia).
      rewrite Nat2Z.inj_sub, !Z2Nat.id in E' by lia. replace (w - (w - k)) with k in E' by lia.
      assert (Hq : 0 <= v / 2 ^ (w - k) < 2 ^ k).
      { split; [apply Z.div_pos; lia|]. apply Z.div_lt_upper_bound; [lia|]. rewrite <- Z.pow_add_r by lia. replace (w - k + k) with w by lia. lia. }
      rewrite (Z.mod_small (v / 2 ^ (w - k))) in E' by lia.
      destruct (rol_val w v k Hw (conj V0 V1) Hk) as [-> _]. now apply bv_res_mk.
  - inversion E; subst. unfold mk_bvrol. rewrite (bv_width_ok a w (proj1 Na) (proj2 Na)).
    split; [apply (bvterm_rot OBVRol); auto|]. rewrite eval_plain by reflexivity. cbn [map op_sem].
    destruct (bvterm_eval w a Na) as [-> _]. reflexivity.
Qed.
Lemma py_repeat_single {A} (x : A) k : py_repeat [x] k = repeat x (Z.to_nat k).
Proof. unfold py_repeat. induction (Z.to_nat k) as [|n IH]; cbn; auto. now rewrite IH. Qed.
Lemma ext_bits_val f m n v : (0 < n)%nat -> 0 <= v < 2 ^ Z.of_nat n -> forall w r,
  mk_bv_bits (repeat f m ++ bits_msb n v) (Some w) = Some r ->
  w = Z.of_nat m + Z.of_nat n /\ mk_bv ((if f then 2 ^ Z.of_nat m - 1 else 0) * 2 ^ Z.of_nat n + v) w = Some r.
Proof.
  intros Hn Hv w r E. unfold mk_bv_bits, int_of_bits in E.
  destruct (repeat f m ++ bits_msb n v) as [|b l] eqn:El.
  { apply (f_equal (@List.length bool)) in El. rewrite app_length, bits_msb_length in El. cbn in El. lia. }
  rewrite <- El in E. assert (Hz : zlen (repeat f m ++ bits_msb n v) = Z.of_nat m + Z.of_nat n).
  { unfold zlen. rewrite app_length, repeat_length, bits_msb_length. lia. }
  rewrite Hz in E. destruct (Z.eqb_spec w (Z.of_nat m + Z.of_nat n)) as [->|]; [|discriminate]. split; auto.
  rewrite int_of_bits_acc_app, int_of_bits_acc_repeat in E. rewrite int_of_bits_acc_val in E.
  rewrite bits_msb_length, rev_bits_msb, lsb_val_bits in E by lia. rewrite Z.mod_small in E by lia. exact E.
Qed.
Lemma bvterm_ext (mk : Z -> Z -> op) wa w k a : (mk = OBVZext \/ mk = OBVSext) -> wa <= w -> 0 <= w -> w = wa + k ->
  bvterm wa a -> bvterm w (T (mk w k) [a]).
Proof.
  intros Hm Hle Hw0 Ew [Oa Ta]. split.
  - apply okt_intro; [|repeat constructor; auto]. rewrite (bv_width_ok a wa Oa Ta) || idtac.
    destruct Hm as [-> | ->]; cbn; rewrite (bv_width_ok a wa Oa Ta); now apply Z.eqb_eq.
  - rewrite tc_tcs. cbn [tcs]. rewrite Ta. destruct Hm as [-> | ->]; cbn;
      rewrite (proj2 (Z.ltb_ge w wa)), (proj2 (Z.ltb_ge w 0)) by lia; reflexivity.
Qed.
Lemma r_bv_zext_sound wa w k a r : wa <= w -> 0 <= w -> w = wa + k -> bvterm wa a -> r_bv_zext w k a = Some r ->
  bv_res w r (bvzI a).
Proof.
  intros Hle Hw0 Ew Na E. unfold r_bv_zext in E. destruct (is_bv_constant a) eqn:C.
  - destruct (const_bits wa a Na C) as (v & -> & [V0 V1] & Hwa & Zv & Hb). rewrite Hb in E. unfold Simplifier.bind in E. rewrite Zv.
    rewrite py_repeat_single in E.
    assert (Hn : (0 < Z.to_nat wa)%nat) by (apply (Z2Nat.inj_lt 0); lia).
    destruct (ext_bits_val false (Z.to_nat k) (Z.to_nat wa) v Hn ltac:(rewrite Z2Nat.id by lia; lia) w r E) as [_ E'].
    rewrite Z.mul_0_l, Z.add_0_l in E'. apply bv_res_mk; auto. lia.
  - inversion E; subst r. unfold mk_bvzext. rewrite (bv_width_ok a wa (proj1 Na) (proj2 Na)). rewrite <- Ew.
    split; [apply (bvterm_ext OBVZext wa); auto|]. rewrite eval_plain by reflexivity. cbn [map op_sem].
    destruct (bvterm_eval wa a Na) as [-> _]. reflexivity.
Qed.
Lemma bits_msb_head n v : (0 < n)%nat -> exists l, bits_msb n v = Z.testbit v (Z.of_nat n - 1) :: l.
Proof. intros Hn. destruct n as [|m]; [lia|]. cbn [bits_msb]. eexists. f_equal. f_equal. lia. Qed.
Lemma r_bv_sext_sound wa w k a r : 0 < wa -> wa <= w -> w = wa + k -> bvterm wa a -> r_bv_sext w k a = Some r ->
  bv_res w r (bvmod w (to_signed wa (bvzI a))).
Proof.
  intros Hwa Hle Ew Na E. unfold r_bv_sext in E. destruct (is_bv_constant a) eqn:C.
  - destruct (const_bits wa a Na C) as (v & -> & [V0 V1] & _ & Zv & Hb). rewrite Hb in E. unfold Simplifier.bind in E. rewrite Zv.
    assert (Hn : (0 < Z.to_nat wa)%nat) by (apply (Z2Nat.inj_lt 0); lia).
    destruct (bits_msb_head (Z.to_nat wa) v Hn) as (l & Hl). rewrite Hl in E. rewrite <- Hl in E.
    rewrite py_repeat_single in E. rewrite Z2Nat.id in E by lia.
    destruct (ext_bits_val _ (Z.to_nat k) (Z.to_nat wa) v Hn ltac:(rewrite Z2Nat.id by lia; lia) w r E) as [Ewl E'].
    assert (Hk0 : 0 <= k) by lia. rewrite !Z2Nat.id in Ewl, E' by lia.
    rewrite (testbit_top wa v Hwa (conj V0 V1)) in E'.
    assert (Hp1 : 0 < 2 ^ (wa - 1)) by (apply pow2_pos; lia). assert (Hpa : 0 < 2 ^ wa) by (apply pow2_pos; lia).
    assert (E2 : 2 ^ wa = 2 * 2 ^ (wa - 1)) by (rewrite <- Z.pow_succ_r by lia; f_equal; lia).
    assert (Epw : 2 ^ w = 2 ^ k * 2 ^ wa) by (rewrite Ewl; rewrite Z.pow_add_r by lia; reflexivity).
    assert (Hpm : 0 < 2 ^ k) by (apply pow2_pos; lia).
    unfold to_signed, bvmod. destruct (Z.leb_spec (2 ^ (wa - 1)) v) as [Hneg|Hpos].
    + rewrite (proj2 (Z.ltb_ge v (2 ^ (wa - 1))) Hneg).
      replace (v - 2 ^ wa) with (((2 ^ k - 1) * 2 ^ wa + v) + (-1) * 2 ^ w) by (rewrite Epw; lia).
      rewrite Z.mod_add by lia. rewrite Z.mod_small by (rewrite Epw; nia). apply bv_res_mk; auto. lia.
    + rewrite (proj2 (Z.ltb_lt v (2 ^ (wa - 1))) Hpos). rewrite Z.mul_0_l, Z.add_0_l in E'.
      rewrite Z.mod_small by (rewrite Epw; nia). apply bv_res_mk; auto. lia.
  - inversion E; subst r. unfold mk_bvsext. rewrite (bv_width_ok a wa (proj1 Na) (proj2 Na)). rewrite <- Ew.
    split; [apply (bvterm_ext OBVSext wa); auto; lia|]. rewrite eval_plain by reflexivity. cbn [map op_sem].
    destruct (bvterm_eval wa a Na) as [-> _]. reflexivity.
Qed.
Close Scope Z_scope.
End Rules3.

(* typing of bit-vector nodes *)
Definition bv_generic (k : bvop) : Prop := match k with BConcat | BComp => False | _ => True end.
Lemma bv_args_generic k w args ty : bv_generic k -> okt (T (OBV k w) args) = true -> tc (T (OBV k w) args) = Some ty ->
  ty = TBV w /\ Forall (bvterm w) args.
Proof.
  intros Hk Hok Htc. pose proof (okt_args _ _ Hok) as Fa. destruct (tc_inv _ _ _ Htc) as (tys & Ht & Hr).
  assert (G : ty = TBV w /\ Forall (fun x => x = TBV w) tys).
  { destruct k; try contradiction; cbn in Hr;
      (destruct (forallb (fun a => ty_eqb a (TBV w)) tys) eqn:Ef; [|discriminate]); inversion Hr; split; auto;
      apply Forall_forall; intros x Hx; rewrite forallb_forall in Ef; apply ty_eqb_eq; auto. }
  destruct G as [-> Hall]. split; auto. pose proof (tcs_Forall2 _ _ Ht) as F2. clear - Fa F2 Hall.
  induction F2 as [|a t r tr Ha Hr IH]; constructor.
  - inversion Fa; subst. inversion Hall; subst. split; auto.
  - inversion Fa; subst. inversion Hall; subst. auto.
Qed.
Lemma bv_args_pair o a b ty : okt (T o [a; b]) = true -> tc (T o [a; b]) = Some ty ->
  exists ta tb, okt a = true /\ okt b = true /\ tc a = Some ta /\ tc b = Some tb /\ tc_rule o [ta; tb] = Some ty.
Proof.
  intros Hok Htc. pose proof (okt_args _ _ Hok) as Fa. destruct (tc_inv _ _ _ Htc) as (tys & Ht & Hr).
  pose proof (tcs_Forall2 _ _ Ht) as F2.
  inversion F2 as [|? ta ? ? Ha F2']; subst. inversion F2' as [|? tb ? ? Hb F2'']; subst. inversion F2''; subst.
  inversion Fa as [|? ? Oa Fa']; subst. inversion Fa' as [|? ? Ob _]; subst. exists ta, tb. auto.
Qed.

