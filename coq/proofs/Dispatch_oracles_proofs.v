(* QuantifierOracle, FreeVarsOracle, AtomsOracle, TypesOracle, SizeOracle: the hand models of
   models/Oracles.v compute, at every operator, what the method that pysmt/oracles.py dispatches
   that operator to computes.  The tables [qfo_dispatch] ... are regenerated from the source
   (gen/Dispatch.v); each walk_* method is stated once below as a function of the node and of
   the results for its children. *)
From Coq Require Import List ZArith Bool String NArith.
From PySMT.core Require Import Syntax.
From PySMT.gen Require Import Operators Dispatch.
From PySMT.models Require Import TypeChecker Oracles.
From PySMT.proofs Require Import Operators_proofs Dispatch_common.
Import ListNotations.
Open Scope bool_scope.

Ltac by_op o := destruct o; try reflexivity; split_kind; reflexivity.
Ltac by_dispatch := let o := fresh "o" in intro o; destruct o; try split_kind;
  (eexists; split; [vm_compute; reflexivity | intros; reflexivity]).

(* ---- the model's classification predicates are the translated groups *)
Theorem is_theory_relation_is_RELATIONS : forall o, is_theory_relation o = nt_in G_RELATIONS (nt_of_op o).
Proof. intro o. by_op o. Qed.

Theorem const_type_is_CONSTANTS : forall o,
  (match const_type o with [] => false | _ => true end) = nt_in G_CONSTANTS (nt_of_op o).
Proof. intro o. by_op o. Qed.

Theorem is_qf_node_is_QUANTIFIERS : forall o args,
  is_qf (T o args) = negb (nt_in G_QUANTIFIERS (nt_of_op o)) && forallb is_qf args.
Proof. intros o args. by_op o. Qed.


(* ------------------------------------------------------------------ QuantifierOracle *)
Inductive qfo_handler := Q_false | Q_all.
Definition qfo_handler_of_name := hlookup [("walk_false", Q_false); ("walk_all", Q_all)]%string.
Definition qfo_handler_rule (h : qfo_handler) (rec : list bool) : bool :=
  match h with Q_false => false | Q_all => forallb (fun b => b) rec end.

Lemma forallb_map_id : forall (l : list term), forallb (fun b : bool => b) (map is_qf l) = forallb is_qf l.
Proof. induction l as [|a l IH]; cbn; [reflexivity | now rewrite IH]. Qed.

Theorem qfo_dispatch_matches_source : forall o, exists h,
  qfo_handler_of_name (qfo_dispatch (nt_of_op o)) = Some h /\
  forall args, is_qf (T o args) = qfo_handler_rule h (map is_qf args).
Proof.
  intro o. destruct o; try split_kind;
    (eexists; split; [vm_compute; reflexivity | intros; cbn [qfo_handler_rule is_qf]; try reflexivity; now rewrite forallb_map_id]).
Qed.

(* ------------------------------------------------------------------ FreeVarsOracle *)
Inductive fvo_handler := F_quantifier | F_simple_args | F_symbol | F_function | F_constant.
Definition fvo_handler_of_name :=
  hlookup [("walk_quantifier", F_quantifier); ("walk_simple_args", F_simple_args); ("walk_symbol", F_symbol);
          ("walk_function", F_function); ("walk_constant", F_constant)]%string.
Definition fvo_handler_rule (h : fvo_handler) (o : op) (rec : list (list var)) : option (list var) :=
  match h with
  | F_simple_args => Some (unions var_eqb rec)
  | F_constant => Some []
  | F_quantifier => match o with OForall vs | OExists vs => Some (diff var_eqb (unions var_eqb rec) vs) | _ => None end
  | F_symbol => match o with OSymbol n ty => Some [(n, ty)] | _ => None end
  | F_function => match o with OFunction n ty => Some (union var_eqb [(n, ty)] (unions var_eqb rec)) | _ => None end
  end.

Theorem fvo_dispatch_matches_source : forall o, exists h,
  fvo_handler_of_name (fvo_dispatch (nt_of_op o)) = Some h /\
  forall args, Some (fv (T o args)) = fvo_handler_rule h o (map fv args).
Proof. by_dispatch. Qed.

(* ------------------------------------------------------------------ AtomsOracle *)
Inductive ao_handler := A_bool_op | A_symbol | A_function | A_constant | A_theory_op | A_theory_relation | A_ite | A_array_select.
Definition ao_handler_of_name :=
  hlookup [("walk_bool_op", A_bool_op); ("walk_symbol", A_symbol); ("walk_function", A_function); ("walk_constant", A_constant);
          ("walk_theory_op", A_theory_op); ("walk_theory_relation", A_theory_relation); ("walk_ite", A_ite);
          ("walk_array_select", A_array_select)]%string.
Definition ao_handler_rule (h : ao_handler) (t : term) (rec : list (option (list term))) : option (list term) :=
  match h with
  | A_bool_op => match all_some rec with Some ls => Some (unions term_eqb ls) | None => None end
  | A_ite => match all_some rec with Some ls => Some (unions term_eqb ls) | None => None end
  | A_theory_op => None
  | A_theory_relation => Some [t]
  | A_constant => match top t with OBoolC _ => Some [] | _ => None end
  | A_array_select => if result_is_bool t then Some [t] else None
  | A_symbol => match top t with OSymbol _ ty => if ty_eqb ty TBool then Some [t] else None | _ => None end
  | A_function => match top t with OFunction _ (TFun _ r) => if ty_eqb r TBool then Some [t] else None | _ => None end
  end.

Theorem ao_dispatch_matches_source : forall o, exists h,
  ao_handler_of_name (ao_dispatch (nt_of_op o)) = Some h /\
  forall args, atoms (T o args) = ao_handler_rule h (T o args) (map atoms args).
Proof.
  intro o. destruct o; try split_kind;
    (eexists; split; [vm_compute; reflexivity | intros; cbn [atoms ao_handler_rule top]; try reflexivity]).
Qed.

(* ------------------------------------------------------------------ TypesOracle *)
Inductive typeso_handler := Y_quantifier | Y_combine | Y_symbol | Y_function | Y_constant | Y_array_value.
Definition typeso_handler_of_name :=
  hlookup [("walk_quantifier", Y_quantifier); ("walk_combine", Y_combine); ("walk_symbol", Y_symbol);
          ("walk_function", Y_function); ("walk_constant", Y_constant); ("walk_array_value", Y_array_value)]%string.
Definition typeso_handler_rule (h : typeso_handler) (o : op) (rec : list (list ty)) : option (list ty) :=
  let r := unions ty_eqb rec in
  match h with
  | Y_combine => Some r
  | Y_constant => match const_type o with [] => None | l => Some l end
  | Y_quantifier => match o with OForall vs | OExists vs => Some (union ty_eqb (dedupe ty_eqb (map snd vs)) r) | _ => None end
  | Y_symbol => match o with OSymbol _ ty => Some [ty] | _ => None end
  | Y_function => match o with
                  | OFunction _ (TFun ps rt) => Some (union ty_eqb (dedupe ty_eqb (rt :: ps)) r)
                  | OFunction _ _ => Some r
                  | _ => None
                  end
  | Y_array_value => match o with OArrayValue it => Some (union ty_eqb [it] r) | _ => None end
  end.

Theorem typeso_dispatch_matches_source : forall o, exists h,
  typeso_handler_of_name (typeso_dispatch (nt_of_op o)) = Some h /\
  forall args, Some (types_walk (T o args)) = typeso_handler_rule h o (map types_walk args).
Proof.
  intro o. destruct o; try split_kind;
    (eexists; split; [vm_compute; reflexivity | intros; cbn [types_walk typeso_handler_rule const_type]; try reflexivity]).
  destruct t; reflexivity.
Qed.

(* ------------------------------------------------------------------ SizeOracle *)
(* get_size(formula, measure) rebinds EVERY node type to measure_to_fun[measure]: the handler does
   not depend on the operator, and the six measures are the six model functions, whose
   recursion equation is the same at every operator except where the method says otherwise
   (leaves: no children; symbols: formula.is_symbol(); bool_dag: formula.is_theory_relation()) *)
Theorem sizeo_dispatch_uniform : forall m n n', sizeo_dispatch m n = sizeo_dispatch m n'.
Proof. intros m n n'. unfold sizeo_dispatch. destruct m as [|p]; [reflexivity|]. do 3 (destruct p; try reflexivity). Qed.

Theorem sizeo_measures_known :
  map (fun m => sizeo_dispatch m NT_AND) [0; 1; 2; 3; 4; 5]%N =
  [Some "walk_count_tree"; Some "walk_count_dag"; Some "walk_count_leaves"; Some "walk_count_depth";
   Some "walk_count_symbols"; Some "walk_count_bool_dag"]%string /\
  sizeo_measures = [("MEASURE_TREE_NODES", 0); ("MEASURE_DAG_NODES", 1); ("MEASURE_LEAVES", 2); ("MEASURE_DEPTH", 3);
                    ("MEASURE_SYMBOLS", 4); ("MEASURE_BOOL_DAG", 5)]%string%N.
Proof. split; vm_compute; reflexivity. Qed.

Theorem size_equations_uniform : forall o args,
  size_tree (T o args) = S (sum_nat (map size_tree args)) /\
  size_dag (T o args) = List.length (union term_eqb [T o args] (unions term_eqb (map subterms args))) /\
  size_bool_dag (T o args) = List.length (if nt_in G_RELATIONS (nt_of_op o) then [T o args]
                                          else union term_eqb [T o args] (unions term_eqb (map bool_dag args))).
Proof.
  intros o args. repeat split; try reflexivity.
  unfold size_bool_dag. cbn [bool_dag]. now rewrite is_theory_relation_is_RELATIONS.
Qed.
